#!/usr/bin/env python3
"""(re)write DESIGN.md section 11.3 from the seeded results (tools/seeded_table.py)."""
import os
import re
import subprocess
import sys

HERE = os.path.dirname(os.path.dirname(os.path.abspath(__file__)))
INTRO = '''Forty changes, two per property, were written by independent sub-agents that saw only the text of one property and
a scratch worktree (never `/verif`); each compiles, passes the repository's 109 ctest programs and comes with the author's
demonstration (`seeded/<id>/`).  Each was applied to `/repo`, the quick check(s) were run, and it was undone
(`tools/try_seeded.py`).  The table is generated from `seeded/*/check_results.json`.

'''
NOTES = '''
What the first pass missed, and what was changed in response (each was then re-run; the table shows the final state):

* `C04-m2` (take_until leaves its stop callback registered on the error path): the C04 check did not run stream
  pipelines and the C13 check did not own the registration rule -> C04 now also runs C13's pipelines (rule M4).
* `C09-m2` (cancelled future no longer stops the spawned operation): no rule looked at it -> new end-of-history rule
  `cancelled-future-did-not-request-stop` (completer's claim later than the future's done and no stop seen).
* `C11-m1`, `C01-m1` (finally's "storing the value threw" path): unreachable because tracked values had a noexcept move ->
  `vf::mval` (throwing move), fixed corner programs, fault enumeration in C01/C11, direct `via()` context rule.  `C01-m1`
  still dies on a sanitizer report before its second completion is delivered, so it is reported by C02, not by C01.
* `C11-m2` (stop-request thunk delivers the stop inline): the mt task harness only awaited timers, which hop by themselves
  -> it now also waits on a never-set v2 event (completes inline from the stop callback); C10's model caught it already.
* `C12-m1` (allocate() leaks on a throwing connect): only C02 enumerated faults -> C12 enumerates faults for allocating
  programs and owns the allocator-balance rule M3 as well.
* `C13-m2` (stop_immediately does not cancel the in-flight next): `stop_immediately` was not in the stream grammar -> added
  (which also exposed the genuine defect fixed in `7b5568b`).
* `C16-m2` (async_pass cancels a claimed call): no async_pass harness existed -> `harness/src/pass.cpp`.
* `C18-m1` (any_object keeps a stale vtable after a throwing move-assignment): the wrapped "throwing move" type never
  threw -> new history operation with an armed throwing move.  `C18-m2` (type_erased_stream forwards dangling references):
  leaf values never lived inside the producing operation -> in-op value flavour (stream elements always) and `val`
  scribbles its id on destruction.
* `C20-m1`, `C20-m2` (async-stack frame not popped on the done path of a task; wrong visitor for coroutine promises): the
  differential did not run coroutines -> task plans under the C++20 configurations with an `async_trace` step.
* `C09-m1` (cancelled future leaks the shared state when it loses the abandoned->complete race) needs the spawned
  operation to complete exactly between the future's load and its CAS (hook site 265).  One quick run caught it, a later
  one did not; the C09 quick tier now perturbs the spawn_future sites (265, 263, 264) first and uses three processes per
  scope flavour, after which it was caught on 3 of 3 seeds.  Detection of this change remains probabilistic.
* `C07-m2`, `C08-m1`, `C10-m2`, `C20-m1` first ended as *harness failure* (exit 2) because the process of one mode died on the
  very violation and its coverage counters went missing -> missing coverage caused by a new violation now yields exit 1.
* Two apparent detections were discarded as coincidences and re-run after the cause was removed: C18-m1/m2 and C20-m1/m2 had
  been "caught" by alarms that also fired on the unchanged tree (the stop_immediately defect; a generator corner in C20).
* Not detected by the property's own check but by a neighbouring one: `C01-m1` (C02), `C01-m2` (C07: C01's generated
  expressions contain no timers), `C02-m2` (first only C19; now C02 runs the detach_on_cancel mode too), `C14-m2` (C14, not
  C06: the lost eventfd wake-up needs the I/O context's idle protocol).
'''


def main():
    table = subprocess.run([sys.executable, os.path.join(HERE, "tools", "seeded_table.py")], capture_output=True,
                           text=True).stdout
    p = os.path.join(HERE, "DESIGN.md")
    s = open(p).read()
    body = INTRO + table + NOTES
    if "@@MUTANTS@@" in s:
        s = s.replace("@@MUTANTS@@", "<!-- seeded-table-begin -->\n" + body + "<!-- seeded-table-end -->")
    else:
        s = re.sub(r"<!-- seeded-table-begin -->.*?<!-- seeded-table-end -->",
                   lambda m: "<!-- seeded-table-begin -->\n" + body + "<!-- seeded-table-end -->", s, flags=re.S)
    open(p, "w").write(s)


if __name__ == "__main__":
    main()
