#!/usr/bin/env python3
"""Apply one seeded change to /repo, run the given checks (quick tier unless --tier), undo the change.

usage: tools/try_seeded.py <seeded-dir-or-patch> <Cxx> [<Cyy> ...] [--tier quick|thorough] [--seed N]

The patch is applied with `git -C /repo apply` and undone with `git -C /repo checkout -- .` in a finally block;
/repo must be clean before.  Prints one line per check:  <patch> <Cxx> exit=<rc> CAUGHT|missed  <first VIOLATION key>
"""
import json
import os
import subprocess
import sys
import time

HERE = os.path.dirname(os.path.dirname(os.path.abspath(__file__)))


def main():
    args = sys.argv[1:]
    tier, seed = "quick", None
    if "--tier" in args:
        i = args.index("--tier")
        tier = args[i + 1]
        del args[i:i + 2]
    if "--seed" in args:
        i = args.index("--seed")
        seed = args[i + 1]
        del args[i:i + 2]
    repo = "/repo"
    if "--repo" in args:
        # run against a scratch worktree instead of /repo (several seeded changes can then be tried side by side)
        i = args.index("--repo")
        repo = args[i + 1]
        del args[i:i + 2]
    target, props = args[0], args[1:]
    patch = target if target.endswith(".diff") else os.path.join(target, "patch.diff")
    patch = os.path.abspath(patch)
    st = subprocess.run(["git", "-C", repo, "status", "--porcelain", "--untracked-files=no"],
                        capture_output=True, text=True).stdout.strip()
    if st:
        print("refusing: /repo has local changes:\n" + st)
        return 2
    r = subprocess.run(["git", "-C", repo, "apply", "--3way", patch], capture_output=True, text=True)
    if r.returncode != 0:
        r = subprocess.run(["git", "-C", repo, "apply", patch], capture_output=True, text=True)
    if r.returncode != 0:
        print("patch does not apply: " + r.stderr[-400:])
        subprocess.run(["git", "-C", repo, "checkout", "--", "."])
        return 2
    results = []
    try:
        for p in props:
            env = dict(os.environ)
            if seed:
                env["VERIF_SEED"] = seed
            env["VF_EVIDENCE_DIR"] = "/var/tmp/vf-seeded-evidence" + ("" if repo == "/repo" else "-" + os.path.basename(repo))
            if repo != "/repo":
                env["VF_REPO"] = repo
            t0 = time.time()
            r = subprocess.run([os.path.join(HERE, "vf"), "check", p, "--tier", tier], capture_output=True,
                               text=True, cwd=HERE, env=env)
            out = r.stdout + r.stderr
            keys = [l.strip() for l in out.split("\n") if l.strip().startswith("key=")]
            viol = [l for l in out.split("\n") if l.startswith("VIOLATION")]
            verdict = "CAUGHT" if (r.returncode == 1 and viol) else ("HARNESS-FAILURE" if r.returncode == 2 else "missed")
            line = "%s %s exit=%d %s (%ds) %s" % (os.path.relpath(patch, HERE), p, r.returncode, verdict,
                                                  time.time() - t0, (keys[0][:260] if keys else ""))
            print(line, flush=True)
            if r.returncode == 2:
                print(out[-1500:])
            results.append({"check": p, "tier": tier, "exit": r.returncode, "verdict": verdict,
                            "violation_keys": keys[:6]})
    finally:
        subprocess.run(["git", "-C", repo, "reset", "-q", "--", "."])
        subprocess.run(["git", "-C", repo, "checkout", "--", "."])
    if not target.endswith(".diff"):
        resf = os.path.join(target, "check_results.json")
        old = []
        if os.path.exists(resf):
            old = json.load(open(resf))
        old = [o for o in old if not any(o["check"] == n["check"] and o["tier"] == n["tier"] for n in results)]
        json.dump(old + results, open(resf, "w"), indent=1)
    return 0


if __name__ == "__main__":
    sys.exit(main())
