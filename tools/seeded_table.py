#!/usr/bin/env python3
"""Print the markdown table of DESIGN.md 11.3 from seeded/*/meta.json + check_results.json and record
`expected_checks` (the checks that detected the change) in each meta.json."""
import glob
import json
import os

HERE = os.path.dirname(os.path.dirname(os.path.abspath(__file__)))


def main():
    rows = []
    for d in sorted(glob.glob(os.path.join(HERE, "seeded", "*"))):
        mp = os.path.join(d, "meta.json")
        if not os.path.exists(mp):
            continue
        m = json.load(open(mp))
        rp = os.path.join(d, "check_results.json")
        res = json.load(open(rp)) if os.path.exists(rp) else []
        caught = sorted(set(r["check"] for r in res if r["verdict"] == "CAUGHT"))
        missed = sorted(set(r["check"] for r in res if r["verdict"] != "CAUGHT") - set(caught))
        m["expected_checks"] = caught
        m["status"] = "detected" if caught else "not-detected"
        json.dump(m, open(mp, "w"), indent=1)
        keys = []
        for r in res:
            if r["verdict"] == "CAUGHT" and r.get("violation_keys"):
                k = r["violation_keys"][0]
                k = k.split(" (x")[0].replace("key=", "")
                keys.append(k[:110])
        files = ", ".join(os.path.basename(f) for f in m.get("files", []))[:60]
        rows.append("| `%s` | %s (%s) | %s | %s | %s |" % (
            os.path.basename(d), m.get("title", "")[:120].replace("|", "/"), files,
            " ".join(caught) or "-", " ".join(missed) or "-", ("`%s`" % keys[0]) if keys else ""))
    print("| seeded change | what it breaks (files) | detected by (quick tier) | run but silent | first violation key |")
    print("|---|---|---|---|---|")
    print("\n".join(rows))


if __name__ == "__main__":
    main()
