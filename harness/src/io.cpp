// C14: I/O contexts: remote scheduling, byte-stream integrity, cancellation, OS errors, descriptor release.
#include <vf/mt.hpp>

#include <unifex/inplace_stop_token.hpp>
#include <unifex/io_concepts.hpp>
#include <unifex/linux/io_epoll_context.hpp>
#include <unifex/linux/io_uring_context.hpp>
#include <cstring>
#include <array>
#include <unifex/manual_lifetime.hpp>
#include <unifex/scheduler_concepts.hpp>
#include <unifex/span.hpp>

#include <dirent.h>
#include <signal.h>
#include <sys/syscall.h>

#include <deque>
#include <memory>
#include <vector>

using namespace vf::mt;
using namespace unifex;
using namespace unifex::linuxos;

namespace {

uint64_t self_id() {
  thread_local uint64_t id = (uint64_t)syscall(SYS_gettid);
  return id;
}
int count_fds() {
  int n = 0;
  if (DIR* d = opendir("/proc/self/fd")) {
    while (dirent* e = readdir(d))
      if (e->d_name[0] != '.')
        ++n;
    closedir(d);
    --n;  // the directory handle itself
  }
  return n;
}

constexpr int R_PENDING = 0, R_VALUE = 1, R_DONE = 2, R_ERROR = 3;

struct ostate {
  std::atomic<int> result{R_PENDING};
  std::atomic<int> signals{0};
  std::atomic<uint64_t> thread{0};
  ssize_t value = -1;
  int err = 0;
  inplace_stop_source src;
  void complete(int r) noexcept {
    if (signals.fetch_add(1, std::memory_order_relaxed) != 0)
      violation("C14:io:completed-twice", "an I/O or schedule operation completed twice");
    thread.store(self_id(), std::memory_order_relaxed);
    result.store(r, std::memory_order_release);
  }
  void wait(const char* what, double secs = 30) {
    auto t0 = std::chrono::steady_clock::now();
    int spins = 0;
    while (result.load(std::memory_order_acquire) == R_PENDING) {
      if (++spins > 100) {
        sched_yield();
        spins = 0;
        if (std::chrono::duration<double>(std::chrono::steady_clock::now() - t0).count() > secs) {
          violation("C14:io:operation-lost", "%s still pending after %.0fs", what, secs);
          report();
          _exit(0);
        }
      }
    }
  }
};

struct orcv {
  ostate* st;
  void set_value() noexcept { st->complete(R_VALUE); }
  void set_value(ssize_t n) noexcept {
    st->value = n;
    st->complete(R_VALUE);
  }
  void set_error(std::error_code ec) noexcept {
    st->err = ec.value();
    st->complete(R_ERROR);
  }
  void set_error(std::exception_ptr) noexcept {
    st->err = -1;
    st->complete(R_ERROR);
  }
  void set_done() noexcept { st->complete(R_DONE); }
  friend inplace_stop_token tag_invoke(tag_t<get_stop_token>, const orcv& r) noexcept { return r.st->src.get_token(); }
};

// run an operation to completion from a harness thread; the operation state lives on the heap and is freed as
// soon as the completion has been observed
template <class Sender>
void run_op(Sender&& s, ostate& st, const char* what) {
  using op_t = decltype(unifex::connect(std::move(s), orcv{&st}));
  void* mem = std::malloc(sizeof(op_t));
  op_t* op = new (mem) op_t(unifex::connect(std::move(s), orcv{&st}));
  unifex::start(*op);
  st.wait(what);
  op->~op_t();
  std::free(mem);
}

long g_sched_items = 0, g_bytes = 0, g_reads = 0, g_writes = 0, g_cancelled = 0, g_cancel_lost = 0, g_errors = 0,
     g_short = 0, g_rounds = 0;

template <class Ctx>
void remote_schedule(Ctx& ctx, uint64_t io_thread, rng& r, int P, int per) {
  auto sched = ctx.get_scheduler();
  using op_t = decltype(unifex::connect(schedule(sched), std::declval<orcv>()));
  std::vector<std::deque<ostate>> sts(P);
  std::vector<std::deque<manual_lifetime<op_t>>> ops(P);
  barrier bar(P);
  std::vector<std::thread> ths;
  uint64_t base = r.next();
  for (int p = 0; p < P; ++p) {
    sts[p].resize(per);
    ops[p].resize(per);
  }
  for (int p = 0; p < P; ++p)
    ths.emplace_back([&, p] {
      rng lr(base + p);
      bar.wait();
      for (int i = 0; i < per; ++i) {
        ops[p][i].construct_with([&] { return unifex::connect(schedule(sched), orcv{&sts[p][i]}); });
        unifex::start(ops[p][i].get());
        if (lr.chance(1, 10))
          spin_ns(20000 + lr.below(80000));  // the loop drains and blocks; the next item must wake it
      }
    });
  for (auto& t : ths)
    t.join();
  for (int p = 0; p < P; ++p)
    for (int i = 0; i < per; ++i) {
      sts[p][i].wait("remotely scheduled item");
      if (sts[p][i].result.load() != R_VALUE)
        violation("C14:io:schedule-unexpected-completion", "result %d", sts[p][i].result.load());
      if (sts[p][i].thread.load() != io_thread)
        violation("C14:io:item-ran-off-the-run-thread", "a scheduled item ran on a thread other than the one inside run()");
      ops[p][i].destruct();
      ++g_sched_items;
    }
}

// epoll pipes ----------------------------------------------------------------------------
void epoll_pipe_round(io_epoll_context& ctx, rng& r) {
  auto sched = ctx.get_scheduler();
  auto pipe_ends = open_pipe(sched);  // (not a structured binding: clang 14 cannot capture those in lambdas)
  auto& rd = std::get<0>(pipe_ends);
  auto& wr = std::get<1>(pipe_ends);
  size_t total = 8 * (64 + r.below(4096));
  std::vector<unsigned char> sent(total), got;
  for (size_t i = 0; i + 8 <= total; i += 8) {
    uint64_t c = i / 8 + 0x0101010101010101ull * (r.below(200));
    std::memcpy(&sent[i], &c, 8);
  }
  // parked reads cancelled while the pipe is empty: done, buffer untouched, nothing retained by the context;
  // data written afterwards goes to the next read only
  for (int k = 0; k < 3; ++k) {
    size_t cap = 1 + r.below(512);
    std::unique_ptr<unsigned char[]> buf(new unsigned char[cap]);
    std::memset(buf.get(), 0xEE, cap);
    ostate st;
    bool before_start = r.chance(1, 4);
    if (before_start)
      st.src.request_stop();
    std::thread stopper([&st, d = r.below(40000), before_start] {
      if (!before_start) {
        spin_ns(d);
        st.src.request_stop();
      }
    });
    run_op(async_read_some(rd, as_writable_bytes(span{buf.get(), cap})), st, "parked pipe read");
    stopper.join();
    ++g_reads;
    if (st.result.load() != R_DONE)
      violation("C14:io:cancelled-parked-read-not-done", "read on an empty pipe with stop requested completed with %d (err %d)",
                st.result.load(), st.err);
    else
      ++g_cancelled;
    for (size_t i = 0; i < cap; ++i)
      if (buf[i] != 0xEE) {
        violation("C14:io:cancelled-read-touched-buffer", "byte %zu", i);
        break;
      }
    buf.reset();  // freed: later activity on the descriptor must not reach this operation
    unsigned char probe_byte[3] = {(unsigned char)(0x10 + k), 0x55, 0xAA};
    ostate ws;
    run_op(async_write_some(wr, as_bytes(span{probe_byte, 3})), ws, "pipe write");
    unsigned char in[8] = {};
    ostate rs;
    run_op(async_read_some(rd, as_writable_bytes(span{in, sizeof in})), rs, "pipe read");
    if (rs.result.load() != R_VALUE || rs.value != 3 || std::memcmp(in, probe_byte, 3) != 0)
      violation("C14:io:data-after-cancel-lost-or-altered", "wrote 3 bytes after a cancelled read; next read: result %d value %zd",
                rs.result.load(), rs.value);
    g_bytes += 3;
  }
  // unique content: 8-byte little-endian counters mixed with a per-round salt
  std::atomic<bool> writer_done{false};
  const uint64_t wseed = r.next();
  std::thread writer([&, wseed] {
    rng lr(wseed);
    size_t off = 0;
    while (off < total) {
      static const size_t sizes[] = {1, 7, 64, 4096, 65536};
      size_t n = std::min<size_t>(total - off, sizes[lr.below(5)]);
      ostate st;
      run_op(async_write_some(wr, as_bytes(span{sent.data() + off, n})), st, "pipe write");
      ++g_writes;
      if (st.result.load() == R_VALUE) {
        if (st.value <= 0 || (size_t)st.value > n)
          violation("C14:io:write-value-out-of-range", "wrote %zd of %zu", st.value, n);
        if ((size_t)st.value < n)
          ++g_short;
        off += (size_t)st.value;
      } else {
        violation("C14:io:write-unexpected-completion", "result %d err %d", st.result.load(), st.err);
        break;
      }
    }
    writer_done.store(true, std::memory_order_release);
  });
  rng lr(r.next());
  while (got.size() < total) {
    static const size_t caps[] = {1, 7, 64, 4096, 65536};
    size_t cap = caps[lr.below(5)];
    // exactly-sized heap buffer filled with a sentinel
    std::unique_ptr<unsigned char[]> buf(new unsigned char[cap]);
    std::memset(buf.get(), 0xEE, cap);
    ostate st;
    bool cancel = lr.chance(1, 6);
    std::thread stopper;
    if (cancel)
      stopper = std::thread([&st, d = lr.below(30000)] {
        spin_ns(d);
        st.src.request_stop();
      });
    run_op(async_read_some(rd, as_writable_bytes(span{buf.get(), cap})), st, "pipe read");
    if (stopper.joinable())
      stopper.join();
    ++g_reads;
    int res = st.result.load();
    if (res == R_VALUE) {
      if (st.value <= 0 || (size_t)st.value > cap) {
        violation("C14:io:read-value-out-of-range", "read %zd into %zu", st.value, cap);
        break;
      }
      // bytes beyond the reported count must still be the sentinel
      for (size_t i = (size_t)st.value; i < cap; ++i)
        if (buf[i] != 0xEE) {
          violation("C14:io:buffer-written-beyond-reported-count", "byte %zu of %zu changed, %zd reported", i, cap, st.value);
          break;
        }
      got.insert(got.end(), buf.get(), buf.get() + st.value);
      if (cancel)
        ++g_cancel_lost;
    } else if (res == R_DONE) {
      if (!cancel)
        violation("C14:io:done-without-stop", "read completed with done although stop was never requested");
      ++g_cancelled;
      // a cancelled read must not have consumed data: the buffer must be untouched
      for (size_t i = 0; i < cap; ++i)
        if (buf[i] != 0xEE) {
          violation("C14:io:cancelled-read-touched-buffer", "byte %zu of a done-completed read changed", i);
          break;
        }
    } else {
      violation("C14:io:read-error", "unexpected error %d", st.err);
      break;
    }
    // buf is freed here: a stale completion writing into it later would be a heap-use-after-free
  }
  writer.join();
  if (got.size() == total && std::memcmp(got.data(), sent.data(), total) != 0) {
    size_t i = 0;
    while (i < total && got[i] == sent[i])
      ++i;
    violation("C14:io:byte-stream-differs", "first difference at byte %zu of %zu", i, total);
  }
  g_bytes += (long)got.size();
  // error path: closing the read end makes the next write fail with EPIPE (SIGPIPE ignored)
  {
    auto dead = std::move(rd);
    (void)dead;
  }
  {
    ostate st;
    unsigned char x[16] = {};
    run_op(async_write_some(wr, as_bytes(span{x, sizeof x})), st, "write to a pipe without reader");
    if (st.result.load() != R_ERROR)
      violation("C14:io:missing-error", "write to a pipe whose read end is closed completed with %d", st.result.load());
    else if (st.err != EPIPE)
      violation("C14:io:wrong-error-code", "write to a pipe whose read end is closed reported errno %d, expected EPIPE(%d)",
                st.err, EPIPE);
    else
      ++g_errors;
  }
  ++g_rounds;
}

// io_uring files -------------------------------------------------------------------------
void uring_file_round(io_uring_context& ctx, rng& r, const std::string& path) {
  auto sched = ctx.get_scheduler();
  unlink(path.c_str());
  size_t total = 64 + r.below(20000);
  std::vector<unsigned char> sent(total);
  for (size_t i = 0; i < total; ++i)
    sent[i] = (unsigned char)(r.next() >> 11);
  {
    auto wf = open_file_write_only(sched, path);
    size_t off = 0;
    while (off < total) {
      size_t n = std::min<size_t>(total - off, 1 + r.below(8192));
      ostate st;
      run_op(async_write_some_at(wf, (int64_t)off, as_bytes(span{sent.data() + off, n})), st, "file write");
      ++g_writes;
      if (st.result.load() != R_VALUE || st.value <= 0 || (size_t)st.value > n) {
        violation("C14:io:write-unexpected-completion", "uring write: result %d value %zd err %d", st.result.load(), st.value, st.err);
        return;
      }
      off += (size_t)st.value;
    }
  }
  {
    auto rf = open_file_read_only(sched, path);
    std::vector<unsigned char> got;
    while (got.size() < total) {
      size_t cap = std::min<size_t>(1 + r.below(8192), total - got.size());
      std::unique_ptr<unsigned char[]> buf(new unsigned char[cap]);
      std::memset(buf.get(), 0xEE, cap);
      ostate st;
      run_op(async_read_some_at(rf, (int64_t)got.size(), as_writable_bytes(span{buf.get(), cap})), st, "file read");
      ++g_reads;
      if (st.result.load() != R_VALUE || st.value <= 0 || (size_t)st.value > cap) {
        violation("C14:io:read-unexpected-completion", "uring read: result %d value %zd err %d", st.result.load(), st.value, st.err);
        return;
      }
      for (size_t i = (size_t)st.value; i < cap; ++i)
        if (buf[i] != 0xEE) {
          violation("C14:io:buffer-written-beyond-reported-count", "uring read");
          break;
        }
      got.insert(got.end(), buf.get(), buf.get() + st.value);
    }
    if (got.size() != total || std::memcmp(got.data(), sent.data(), total) != 0)
      violation("C14:io:byte-stream-differs", "uring file round trip of %zu bytes", total);
    g_bytes += (long)got.size();
  }
  ++g_rounds;
}

// io_uring with a completely full ring ---------------------------------------------------------------
// More reads than the completion ring has slots (512 for the context's 256-entry ring) are started on an empty pipe, so
// the loop goes idle with no room left for the eventfd poll that normally announces remote work; then one byte arrives,
// then EOF.  Every read must complete exactly once with the true count, on the I/O thread, and remote work scheduled
// afterwards must still run.
long g_sat_rounds = 0, g_sat_reads = 0;
char thread_state_of(uint64_t tid) {
  char path[64], buf[512];
  snprintf(path, sizeof path, "/proc/self/task/%llu/stat", (unsigned long long)tid);
  FILE* f = fopen(path, "r");
  if (!f)
    return '?';
  size_t n = fread(buf, 1, sizeof buf - 1, f);
  fclose(f);
  buf[n] = 0;
  char* q = strrchr(buf, ')');
  return (q && q[1] && q[2]) ? q[2] : '?';
}
void wait_io_thread_asleep(uint64_t tid) {
  auto t0 = std::chrono::steady_clock::now(), since = t0;
  while (std::chrono::steady_clock::now() - t0 < std::chrono::seconds(10)) {
    if (thread_state_of(tid) != 'S')
      since = std::chrono::steady_clock::now();
    else if (std::chrono::steady_clock::now() - since > std::chrono::milliseconds(60))
      return;
    usleep(2000);
  }
}
void uring_saturation_round(io_uring_context& ctx, uint64_t io_thread, rng& r) {
  int p[2];
  if (pipe(p) != 0)
    return;
  {
    io_uring_context::async_read_only_file in{ctx, dup(p[0])};
    const int N = 520 + (int)r.below(120);
    std::deque<ostate> sts(N);
    std::vector<std::array<char, 8>> bufs(N);
    using snd_t = decltype(async_read_some_at(in, 0, as_writable_bytes(span<char>{bufs[0].data(), 1})));
    using op_t = connect_result_t<snd_t, orcv>;
    std::vector<std::unique_ptr<op_t>> ops;
    ops.reserve(N);
    for (int i = 0; i < N; ++i) {
      bufs[i].fill(0);
      ops.emplace_back(new op_t(unifex::connect(async_read_some_at(in, 0, as_writable_bytes(span<char>{bufs[i].data(), 1})),
                                                orcv{&sts[i]})));
      unifex::start(*ops.back());
    }
    wait_io_thread_asleep(io_thread);
    auto completed = [&] {
      int c = 0;
      for (auto& st : sts)
        if (st.result.load(std::memory_order_acquire) != R_PENDING)
          ++c;
      return c;
    };
    if (completed() != 0)
      violation("C14:io:read-completed-without-data", "saturated ring: %d reads on an empty pipe completed", completed());
    char x = 'x';
    if (write(p[1], &x, 1) != 1)
      violation("C14:io:harness-write-failed", "pipe");
    auto t0 = std::chrono::steady_clock::now();
    while (completed() == 0) {
      usleep(1000);
      if (std::chrono::steady_clock::now() - t0 > std::chrono::seconds(30)) {
        violation("C14:io:operation-lost", "saturated ring: no read completed after a byte was written");
        report();
        _exit(0);
      }
    }
    usleep(30000);
    if (completed() != 1)
      violation("C14:io:read-completed-without-data", "saturated ring: %d reads completed for a single byte", completed());
    close(p[1]);
    int one = 0, zero = 0;
    for (int i = 0; i < N; ++i) {
      sts[i].wait("read on a saturated ring");
      if (sts[i].thread.load() != io_thread)
        violation("C14:io:completion-off-io-thread", "saturated ring read");
      if (sts[i].result.load() == R_VALUE && sts[i].value == 1 && bufs[i][0] == 'x')
        ++one;
      else if (sts[i].result.load() == R_VALUE && sts[i].value == 0)
        ++zero;
      else
        violation("C14:io:read-unexpected-completion", "saturated ring: result %d value %zd err %d", sts[i].result.load(),
                  sts[i].value, sts[i].err);
    }
    if (one != 1 || zero != N - 1)
      violation("C14:io:byte-stream-differs", "saturated ring: %d reads got the byte, %d saw EOF, of %d", one, zero, N);
    // (a completion arriving later than this would be counted by ostate::complete as a second signal)
    ops.clear();
    g_sat_reads += N;
    ++g_sat_rounds;
  }
  close(p[0]);
}

template <class Ctx, class Body>
void with_context(const char* name, Body body) {
  int fds_before = count_fds();
  {
    Ctx ctx;
    inplace_stop_source stop;
    std::atomic<uint64_t> io_thread{0};
    std::atomic<bool> run_returned{false};
    std::thread t([&] {
      io_thread.store(self_id(), std::memory_order_release);
      ctx.run(stop.get_token());
      run_returned.store(true, std::memory_order_release);
    });
    while (!io_thread.load(std::memory_order_acquire))
      sched_yield();
    body(ctx, io_thread.load());
    stop.request_stop();
    // run(token) must return after stop was requested
    auto t0 = std::chrono::steady_clock::now();
    while (!run_returned.load(std::memory_order_acquire)) {
      sched_yield();
      if (std::chrono::steady_clock::now() - t0 > std::chrono::seconds(30)) {
        violation("C14:io:run-did-not-return-after-stop", "%s", name);
        report();
        _exit(0);
      }
    }
    t.join();
  }
  int fds_after = count_fds();
  if (fds_after != fds_before)
    violation("C14:io:descriptor-leak", "%s: %d descriptors before the context, %d after its destruction", name, fds_before,
              fds_after);
}

}  // namespace

int main(int argc, char** argv) {
  signal(SIGPIPE, SIG_IGN);
  args a = parse_args(argc, argv);
  rng r(a.seed);
  if (a.mode == "epoll") {
    for (long i = 0; i < a.iters; ++i)
      with_context<io_epoll_context>("io_epoll_context", [&](io_epoll_context& ctx, uint64_t io_thread) {
        remote_schedule(ctx, io_thread, r, 1 + r.below(a.threads), 100);
        for (int k = 0; k < 3; ++k)
          epoll_pipe_round(ctx, r);
        remote_schedule(ctx, io_thread, r, 1 + r.below(a.threads), 50);
      });
  } else if (a.mode == "uring") {
    std::string path = "/var/tmp/vf-io-" + std::to_string(getpid()) + ".bin";
    for (long i = 0; i < a.iters; ++i)
      with_context<io_uring_context>("io_uring_context", [&](io_uring_context& ctx, uint64_t io_thread) {
        remote_schedule(ctx, io_thread, r, 1 + r.below(a.threads), 100);
        for (int k = 0; k < 3; ++k)
          uring_file_round(ctx, r, path);
        if (i % 3 == 0)
          uring_saturation_round(ctx, io_thread, r);
        remote_schedule(ctx, io_thread, r, 1 + r.below(a.threads), 50);
      });
    unlink(path.c_str());
  } else {
    fprintf(stderr, "unknown mode\n");
    return 2;
  }
  stat_add("scheduled_items", g_sched_items);
  stat_add("bytes_transferred", g_bytes);
  stat_add("reads", g_reads);
  stat_add("writes", g_writes);
  stat_add("short_writes", g_short);
  stat_add("reads_cancelled_done", g_cancelled);
  stat_add("reads_stop_lost_race_value", g_cancel_lost);
  stat_add("os_errors_checked", g_errors);
  stat_add("rounds", g_rounds);
  stat_add("uring_saturated_ring_rounds", g_sat_rounds);
  stat_add("uring_saturated_ring_reads", g_sat_reads);
  stat_add("contexts", a.iters);
  report();
  return 0;
}
