// C16 (async_pass part): single-caller / single-acceptor rendezvous under multi-threaded stress (C++20 only).
//
// Each round uses a fresh async_pass<pl>; the caller side is started from helper thread HC, the acceptor side from HA,
// the receivers answer get_scheduler with single_thread_context SC / SA.  Rules (property C16):
//   * a call completes with value iff an accept received exactly that payload (unique ids), exactly once;
//   * a cancelled call leaves the acceptor waiting and its argument untouched (not moved from); a cancelled accept
//     leaves the caller waiting; the survivor is then served by try_call / try_accept, which must succeed;
//   * try_call / try_accept fail on an idle pass (argument untouched) and succeed when the counterpart is parked;
//   * every completion is delivered on the waiter's own scheduler's thread; exactly one completion per operation.
#include <vf/mt.hpp>

#include <unifex/async_pass.hpp>
#include <unifex/inplace_stop_token.hpp>
#include <unifex/scheduler_concepts.hpp>
#include <unifex/single_thread_context.hpp>
#include <unifex/sync_wait.hpp>
#include <unifex/then.hpp>

#include <functional>
#include <optional>

using namespace vf::mt;

// (external linkage: clang rejects instantiating async_pass's constraint helper over a type without linkage)
namespace vfpass {
struct pl {
  int id = -1;
  bool moved = false;
  pl() = default;
  explicit pl(int i) : id(i) {}
  pl(pl&& o) noexcept : id(o.id), moved(o.moved) { o.moved = true; }
  pl(const pl&) = default;
  pl& operator=(pl&& o) noexcept {
    id = o.id;
    moved = o.moved;
    o.moved = true;
    return *this;
  }
  pl& operator=(const pl&) = default;
};
}  // namespace vfpass
using vfpass::pl;

namespace {

std::atomic<uint64_t> g_seq{1};
inline uint64_t now() {
  return g_seq.fetch_add(1, std::memory_order_relaxed);
}

constexpr int R_PENDING = 0, R_VALUE = 1, R_DONE = 2, R_ERROR = 3;

struct side {
  std::atomic<int> result{R_PENDING};
  std::atomic<int> signals{0};
  std::atomic<uint64_t> cseq{0};
  std::thread::id cthread;
  unifex::inplace_stop_source src;
  int got = -1;  // payload id received (acceptor side)
  const char* what;
  explicit side(const char* w) : what(w) {}
  void complete(int r) noexcept {
    if (signals.fetch_add(1, std::memory_order_relaxed) != 0)
      violation("C01:pass:double-completion", "%s completed twice", what);
    cthread = std::this_thread::get_id();
    cseq.store(now(), std::memory_order_relaxed);
    result.store(r, std::memory_order_release);
  }
  bool wait(double secs = 30.0) {
    auto t0 = std::chrono::steady_clock::now();
    int spins = 0;
    while (result.load(std::memory_order_acquire) == R_PENDING) {
      if (++spins > 200) {
        sched_yield();
        spins = 0;
        if (std::chrono::duration<double>(std::chrono::steady_clock::now() - t0).count() > secs) {
          violation("C16:pass:lost-wakeup", "%s: started operation not completed after %.0fs although its counterpart was served",
                    what, secs);
          report();
          _exit(0);
        }
      }
    }
    return true;
  }
  bool pending() const { return result.load(std::memory_order_acquire) == R_PENDING; }
};

template <class Sched>
struct rcvr {
  side* st;
  Sched sched;
  void set_value() noexcept { st->complete(R_VALUE); }
  void set_value(pl&& p) noexcept {
    st->got = p.id;
    pl taken{std::move(p)};
    (void)taken;
    st->complete(R_VALUE);
  }
  template <class E>
  void set_error(E&&) noexcept {
    st->complete(R_ERROR);
  }
  void set_done() noexcept { st->complete(R_DONE); }
  friend unifex::inplace_stop_token tag_invoke(unifex::tag_t<unifex::get_stop_token>, const rcvr& r) noexcept {
    return r.st->src.get_token();
  }
  friend Sched tag_invoke(unifex::tag_t<unifex::get_scheduler>, const rcvr& r) noexcept { return r.sched; }
};

struct helper {
  std::atomic<long> go{0}, done{0};
  std::function<void()> fn;
  std::atomic<bool> quit{false};
  std::thread th;
  helper() {
    th = std::thread([this] {
      long seen = 0;
      for (;;) {
        while (go.load(std::memory_order_acquire) == seen) {
          if (quit.load(std::memory_order_acquire))
            return;
          sched_yield();
        }
        ++seen;
        fn();
        done.store(seen, std::memory_order_release);
      }
    });
  }
  void launch(std::function<void()> f) {
    fn = std::move(f);
    go.fetch_add(1, std::memory_order_release);
  }
  void wait() {
    long g = go.load();
    while (done.load(std::memory_order_acquire) != g)
      sched_yield();
  }
  ~helper() {
    quit.store(true);
    th.join();
  }
};

void wait_until(const std::function<bool()>& f, const char* what) {
  auto t0 = std::chrono::steady_clock::now();
  int spins = 0;
  while (!f()) {
    if (++spins > 200) {
      sched_yield();
      spins = 0;
      if (std::chrono::duration<double>(std::chrono::steady_clock::now() - t0).count() > 30) {
        violation("C16:pass:never-parked", "%s", what);
        report();
        _exit(0);
      }
    }
  }
}

}  // namespace

int main(int argc, char** argv) {
  args a = parse_args(argc, argv);
  rng r(a.seed * 31 + 5);
  unifex::single_thread_context ctxC, ctxA;
  auto sC = ctxC.get_scheduler();
  auto sA = ctxA.get_scheduler();
  std::thread::id tidC, tidA;
  unifex::sync_wait(unifex::then(unifex::schedule(sC), [&] { tidC = std::this_thread::get_id(); }));
  unifex::sync_wait(unifex::then(unifex::schedule(sA), [&] { tidA = std::this_thread::get_id(); }));
  helper HC, HA;
  using rc_t = rcvr<decltype(sC)>;
  int next_id = 1;
  {
    counters c;
    for (long it = 0; it < a.iters; ++it) {
      unifex::async_pass<pl> pass;
      const int kind = r.below(10);  // 0-5 async both, 6-7 try_call, 8-9 try_accept
      pl arg{next_id++};
      const int id = arg.id;
      side cs("async_call"), as("async_accept");
      c.add("rounds_total");
      // idle pass: the try_ functions must fail and leave the argument alone
      if (r.below(4) == 0) {
        pl probe{next_id++};
        if (pass.try_call(std::move(probe)))
          violation("C16:pass:try_call-succeeded-on-idle-pass", "round %ld", it);
        if (probe.moved)
          violation("C16:pass:argument-touched-by-failed-try_call", "round %ld", it);
        if (pass.try_accept().has_value())
          violation("C16:pass:try_accept-succeeded-on-idle-pass", "round %ld", it);
        c.add("idle_try_checked");
      }
      if (kind <= 5) {
        auto cop = unifex::connect(pass.async_call(std::move(arg)), rc_t{&cs, sC});
        auto aop = unifex::connect(pass.async_accept(), rc_t{&as, sA});
        const int order = r.below(3);  // 0 caller first, 1 acceptor first, 2 together
        const int cancel = r.below(3);  // 0 none, 1 caller, 2 acceptor
        const unsigned d1 = r.below(8000), d2 = r.below(8000), dc = r.below(12000);
        HC.launch([&] {
          if (order == 1)
            spin_ns(2000 + d1);
          unifex::start(cop);
        });
        HA.launch([&] {
          if (order == 0)
            spin_ns(2000 + d2);
          unifex::start(aop);
        });
        if (cancel) {
          spin_ns(dc);
          (cancel == 1 ? cs : as).src.request_stop();
        }
        HC.wait();
        HA.wait();
        // at least one side must settle; the cancelled side always does
        if (cancel == 1)
          cs.wait();
        else if (cancel == 2)
          as.wait();
        else {
          cs.wait();
          as.wait();
        }
        const int cr = cs.result.load(), ar0 = as.result.load();
        if (cancel == 1 && cr == R_DONE) {
          c.add("call_cancelled");
          // the call never happened: argument untouched, acceptor still waiting, no payload delivered
          if (arg.moved)
            violation("C16:pass:argument-touched-by-cancelled-call", "round %ld", it);
          if (!as.pending())
            violation("C16:pass:accept-completed-although-call-cancelled", "round %ld: acceptor result %d got %d", it,
                      as.result.load(), as.got);
          // serve the surviving acceptor
          wait_until([&] { return pass.is_expecting_call(); }, "acceptor of a cancelled call never parked");
          pl second{next_id++};
          const int id2 = second.id;
          if (!pass.try_call(std::move(second)))
            violation("C16:pass:try_call-failed-although-acceptor-waiting", "round %ld", it);
          as.wait();
          if (as.result.load() != R_VALUE || as.got != id2)
            violation("C16:pass:wrong-payload", "round %ld: acceptor got %d, expected %d (first call %d was cancelled)", it,
                      as.got, id2, id);
        } else if (cancel == 2 && ar0 == R_DONE) {
          c.add("accept_cancelled");
          if (!cs.pending())
            violation("C16:pass:call-completed-although-accept-cancelled", "round %ld: caller result %d", it, cs.result.load());
          if (arg.moved)
            violation("C16:pass:argument-touched-without-accept", "round %ld", it);
          wait_until([&] { return pass.is_expecting_accept(); }, "caller of a cancelled accept never parked");
          auto got = pass.try_accept();
          if (!got.has_value())
            violation("C16:pass:try_accept-failed-although-caller-waiting", "round %ld", it);
          else if (std::get<0>(*got).id != id)
            violation("C16:pass:wrong-payload", "round %ld: try_accept got %d, expected %d", it, std::get<0>(*got).id, id);
          cs.wait();
          if (cs.result.load() != R_VALUE)
            violation("C16:pass:call-not-value-after-accept", "round %ld: caller result %d", it, cs.result.load());
        } else {
          // rendezvous happened (possibly the cancellation lost the race)
          cs.wait();
          as.wait();
          c.add(cancel ? "cancel_lost_race" : "plain_rendezvous");
          if (cs.result.load() != R_VALUE || as.result.load() != R_VALUE)
            violation("C16:pass:rendezvous-not-value-on-both-sides", "round %ld: caller %d acceptor %d (cancel=%d)", it,
                      cs.result.load(), as.result.load(), cancel);
          if (as.got != id)
            violation("C16:pass:wrong-payload", "round %ld: acceptor got %d, expected %d", it, as.got, id);
        }
      } else if (kind <= 7) {
        // parked acceptor served by try_call
        auto aop = unifex::connect(pass.async_accept(), rc_t{&as, sA});
        HA.launch([&] { unifex::start(aop); });
        HA.wait();
        if (!pass.is_expecting_call())
          violation("C16:pass:acceptor-not-parked-after-start", "round %ld", it);
        if (!pass.try_call(std::move(arg)))
          violation("C16:pass:try_call-failed-although-acceptor-waiting", "round %ld", it);
        as.wait();
        if (as.result.load() != R_VALUE || as.got != id)
          violation("C16:pass:wrong-payload", "round %ld: acceptor got %d, expected %d", it, as.got, id);
        cs.complete(R_VALUE);  // (no async caller in this round)
        cs.cthread = tidC;
        c.add("try_call_served");
      } else {
        auto cop = unifex::connect(pass.async_call(std::move(arg)), rc_t{&cs, sC});
        HC.launch([&] { unifex::start(cop); });
        HC.wait();
        if (!pass.is_expecting_accept())
          violation("C16:pass:caller-not-parked-after-start", "round %ld", it);
        auto got = pass.try_accept();
        if (!got.has_value() || std::get<0>(*got).id != id)
          violation("C16:pass:try_accept-failed-although-caller-waiting", "round %ld", it);
        cs.wait();
        if (cs.result.load() != R_VALUE)
          violation("C16:pass:call-not-value-after-accept", "round %ld: caller result %d", it, cs.result.load());
        as.complete(R_VALUE);
        as.cthread = tidA;
        c.add("try_accept_served");
      }
      // completion context: each side on its own scheduler's thread
      if (cs.cthread != tidC)
        violation("C16:pass:caller-completed-off-its-scheduler", "round %ld (result %d)", it, cs.result.load());
      if (as.cthread != tidA)
        violation("C16:pass:acceptor-completed-off-its-scheduler", "round %ld (result %d)", it, as.result.load());
      if (!pass.is_idle())
        violation("C16:pass:not-idle-after-round", "round %ld", it);
    }
  }
  report();
  return 0;
}
