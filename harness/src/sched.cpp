// C06: every scheduled item runs exactly once, on the context, none lost; FIFO; trampoline depth; joins.
#include <vf/mt.hpp>

#include <unifex/any_scheduler.hpp>
#include <unifex/inline_scheduler.hpp>
#include <unifex/inplace_stop_token.hpp>
#include <unifex/manual_event_loop.hpp>
#include <unifex/manual_lifetime.hpp>
#include <unifex/new_thread_context.hpp>
#include <unifex/schedule_with_subscheduler.hpp>
#include <unifex/scheduler_concepts.hpp>
#include <unifex/single_thread_context.hpp>
#include <unifex/static_thread_pool.hpp>
#include <unifex/thread_unsafe_event_loop.hpp>
#include <unifex/timed_single_thread_context.hpp>
#include <unifex/trampoline_scheduler.hpp>

#include <dirent.h>
#include <sys/syscall.h>

#include <algorithm>
#include <deque>
#include <memory>
#include <set>

using namespace vf::mt;

namespace {

std::atomic<uint64_t> g_seq{1};
inline uint64_t now() {
  return g_seq.fetch_add(1, std::memory_order_relaxed);
}
inline uint64_t self_id() {
  // kernel thread ids are not reused as eagerly as pthread_t values (new_thread_context creates many threads)
  thread_local uint64_t id = (uint64_t)syscall(SYS_gettid);
  return id;
}
int count_threads() {
  int n = 0;
  if (DIR* d = opendir("/proc/self/task")) {
    while (dirent* e = readdir(d))
      if (e->d_name[0] != '.')
        ++n;
    closedir(d);
  }
  return n;
}

constexpr int R_PENDING = 0, R_VALUE = 1, R_DONE = 2, R_ERROR = 3;

struct item {
  std::atomic<int> signals{0};
  std::atomic<int> result{R_PENDING};
  std::atomic<uint64_t> thread{0}, cseq{0};
  uint64_t start_call = 0, start_ret = 0, producer = 0;
  bool stop_first = false;
  unifex::inplace_stop_source src;
  std::atomic<int>* chain = nullptr;  // remaining self-reschedules (shared counter)
};

struct ctxinfo {
  const char* name;
  std::atomic<long> completed{0};
};

template <class Sched>
struct ircv {
  item* it;
  ctxinfo* ci;
  void complete(int r) noexcept {
    // copy what we need: *this lives in the operation state, which the waiting thread may destroy as soon as
    // it observes the result
    item* i = it;
    ctxinfo* c = ci;
    if (i->signals.fetch_add(1, std::memory_order_relaxed) != 0)
      violation("C06:sched:item-completed-twice", "%s", c->name);
    i->thread.store(self_id(), std::memory_order_relaxed);
    i->cseq.store(now(), std::memory_order_relaxed);
    c->completed.fetch_add(1, std::memory_order_relaxed);
    i->result.store(r, std::memory_order_release);
  }
  void set_value() noexcept { complete(R_VALUE); }
  template <class E>
  void set_error(E&&) noexcept {
    complete(R_ERROR);
  }
  void set_done() noexcept { complete(R_DONE); }
  friend unifex::inplace_stop_token tag_invoke(unifex::tag_t<unifex::get_stop_token>, const ircv& r) noexcept {
    return r.it->src.get_token();
  }
};

bool wait_all(std::deque<item>& items, const char* ctx, double secs = 30) {
  auto t0 = std::chrono::steady_clock::now();
  for (auto& it : items) {
    int spins = 0;
    while (it.result.load(std::memory_order_acquire) == R_PENDING) {
      if (++spins > 100) {
        sched_yield();
        spins = 0;
        if (std::chrono::duration<double>(std::chrono::steady_clock::now() - t0).count() > secs) {
          violation("C06:sched:item-lost", "%s: an accepted schedule() operation is still pending after %.0fs", ctx, secs);
          report();   // the pending operation cannot be torn down safely: report and leave
          _exit(0);
        }
      }
    }
  }
  return true;
}

struct totals {
  long items = 0, value = 0, done = 0, fifo_checked = 0, rounds = 0, threads_seen_max = 0, idle_gaps = 0;
};

// Generic producer/consumer round on a scheduler `sched`.
//  allowed: set of thread ids that belong to the context (empty = unknown: only "not a producer thread")
//  single_fifo: check FIFO between real-time ordered starts
template <class Sched, class Quiesce>
void round(const char* name, Sched sched, int P, int per, rng& r, totals& tot, const std::set<uint64_t>* allowed,
           bool single_fifo, bool remote, Quiesce quiesce, int max_pool_threads = 0) {
  ctxinfo ci{name};
  std::vector<std::deque<item>> items(P);
  using op_t = decltype(unifex::connect(unifex::schedule(sched), std::declval<ircv<Sched>>()));
  std::vector<std::deque<unifex::manual_lifetime<op_t>>> ops(P);
  std::vector<uint64_t> prod_ids(P);
  barrier bar(P);
  std::vector<std::thread> ths;
  uint64_t base = r.next();
  for (int p = 0; p < P; ++p) {
    items[p].resize(per);
    ops[p].resize(per);
  }
  for (int p = 0; p < P; ++p) {
    ths.emplace_back([&, p] {
      rng lr(base + p);
      prod_ids[p] = self_id();
      bar.wait();
      for (int i = 0; i < per; ++i) {
        item& it = items[p][i];
        it.producer = self_id();
        it.stop_first = lr.chance(1, 6);
        if (it.stop_first)
          it.src.request_stop();
        ops[p][i].construct_with([&] { return unifex::connect(unifex::schedule(sched), ircv<Sched>{&it, &ci}); });
        it.start_call = now();
        unifex::start(ops[p][i].get());
        it.start_ret = now();
        if (lr.chance(1, 12)) {
          // idle gap: the context drains its queue and goes to sleep; the next enqueue must wake it
          spin_ns(20000 + lr.below(60000));
        }
      }
    });
  }
  for (auto& t : ths)
    t.join();
  if (remote && r.chance(1, 2)) {
    // bounded progress: with no further stimulus the (idle or draining) context must run what it accepted;
    // a lost wake-up leaves an item pending until something else happens to wake the worker
    bool ok = true;
    for (int p = 0; p < P && ok; ++p)
      ok = wait_all(items[p], name, 20.0);
    if (!ok)
      violation("C06:sched:lost-wakeup", "%s: accepted items not run within 20s while the context was otherwise idle", name);
    ++tot.idle_gaps;
    // now the context is idle (its workers asleep): a few isolated items, one at a time, must each wake it
    for (int k = 0; ok && k < 3; ++k) {
      timespec ts{0, 300000};
      nanosleep(&ts, nullptr);
      std::deque<item> one(1);
      one[0].producer = self_id();
      unifex::manual_lifetime<op_t> oneop;
      oneop.construct_with([&] { return unifex::connect(unifex::schedule(sched), ircv<Sched>{&one[0], &ci}); });
      unifex::start(oneop.get());
      ok = wait_all(one, name, 20.0);
      if (!ok)
        violation("C06:sched:lost-wakeup", "%s: a single item scheduled on the idle context was not run within 20s", name);
      oneop.destruct();
      ++tot.items;
      ++tot.value;
    }
  }
  quiesce();  // e.g. drive a manual loop / destroy the context; afterwards everything must have completed
  std::set<uint64_t> seen;
  std::vector<item*> all;
  for (int p = 0; p < P; ++p) {
    if (!wait_all(items[p], name))
      break;
    for (int i = 0; i < per; ++i) {
      item& it = items[p][i];
      all.push_back(&it);
      ++tot.items;
      int res = it.result.load();
      if (it.stop_first) {
        if (res != R_DONE)
          violation("C06:sched:value-although-stop-requested-before-start", "%s: result %d", name, res);
        ++tot.done;
      } else {
        if (res != R_VALUE)
          violation("C06:sched:unexpected-completion", "%s: result %d without stop", name, res);
        ++tot.value;
      }
      uint64_t th = it.thread.load();
      seen.insert(th);
      if (remote) {
        if (allowed && !allowed->empty()) {
          if (!allowed->count(th))
            violation("C06:sched:completion-off-context", "%s: completed on a thread that is not the context's", name);
        }
        if (std::find(prod_ids.begin(), prod_ids.end(), th) != prod_ids.end() && !(allowed && allowed->count(th)))
          violation("C06:sched:completion-on-caller-thread", "%s: remote context completed an item on the producer thread", name);
      } else {
        if (th != it.producer)
          violation("C06:sched:inline-completion-off-caller", "%s: inline/trampoline item completed on another thread", name);
      }
      ops[p][i].destruct();
    }
  }
  if (max_pool_threads && (int)seen.size() > max_pool_threads)
    violation("C06:sched:more-threads-than-configured", "%s: %zu distinct completion threads, %d configured", name,
              seen.size(), max_pool_threads);
  tot.threads_seen_max = std::max<long>(tot.threads_seen_max, (long)seen.size());
  if (single_fifo) {
    // FIFO: if start(A) returned before start(B) was called, A completes before B
    std::sort(all.begin(), all.end(), [](item* a, item* b) { return a->cseq.load() < b->cseq.load(); });
    uint64_t max_start_call = 0;
    for (item* it : all) {
      if (max_start_call > it->start_ret)
        violation("C06:sched:fifo-inversion", "%s: an item enqueued (start called at %llu) after another's start() had "
                  "returned (%llu) ran first", name, (unsigned long long)max_start_call, (unsigned long long)it->start_ret);
      max_start_call = std::max(max_start_call, it->start_call);
      ++tot.fifo_checked;
    }
  }
  ++tot.rounds;
}

struct tid_probe {
  std::atomic<uint64_t>* out;
  void set_value() noexcept { out->store(self_id(), std::memory_order_release); }
  template <class E>
  void set_error(E&&) noexcept {}
  void set_done() noexcept {}
};
template <class Sched>
uint64_t thread_of(Sched s) {
  std::atomic<uint64_t> id{0};
  auto op = unifex::connect(unifex::schedule(s), tid_probe{&id});
  unifex::start(op);
  while (!id.load(std::memory_order_acquire))
    sched_yield();
  return id.load();
}

void report_tot(const char* n, const totals& t) {
  char k[128];
#define ST(name, v) \
  snprintf(k, sizeof k, "%s_%s", n, name); \
  stat_add(k, v)
  ST("items", t.items);
  ST("value", t.value);
  ST("done_stop_before_start", t.done);
  ST("fifo_checked", t.fifo_checked);
  ST("rounds", t.rounds);
  ST("rounds_waiting_for_idle_context", t.idle_gaps);
  ST("max_distinct_completion_threads", t.threads_seen_max);
#undef ST
  stat_add("items_total", t.items);
}

// trampoline ------------------------------------------------------------------------
thread_local int tl_depth = 0;
thread_local int tl_max_depth = 0;
struct tramp_state;
struct tramp_rcv {
  tramp_state* s;
  void set_value() noexcept;
  template <class E>
  void set_error(E&&) noexcept {}
  void set_done() noexcept;
};
using tramp_op_t =
    decltype(unifex::connect(std::declval<unifex::trampoline_scheduler&>().schedule(), std::declval<tramp_rcv>()));
struct tramp_state {
  unifex::trampoline_scheduler sched;
  int remaining;
  int completed = 0;
  int fanout;
  std::deque<unifex::manual_lifetime<tramp_op_t>> ops;
};
void tramp_rcv::set_value() noexcept {
  ++tl_depth;
  tl_max_depth = std::max(tl_max_depth, tl_depth);
  ++s->completed;
  for (int f = 0; f < s->fanout && s->remaining > 0; ++f) {
    --s->remaining;
    s->ops.emplace_back();
    auto& slot = s->ops.back();
    slot.construct_with([&] { return unifex::connect(s->sched.schedule(), tramp_rcv{s}); });
    unifex::start(slot.get());
  }
  --tl_depth;
}
void tramp_rcv::set_done() noexcept {
  ++s->completed;
}

template <class Sch>
struct subsched_rc {
  std::atomic<int>* done;
  uint64_t ctid;
  Sch expect;
  void set_value(Sch s) noexcept {
    if (!(s == expect))
      violation("C06:subscheduler:wrong-scheduler", "sub-scheduler differs from the context's scheduler");
    if (self_id() != ctid)
      violation("C06:sched:completion-off-context", "schedule_with_subscheduler completed off the context");
    done->store(1, std::memory_order_release);
  }
  template <class E>
  void set_error(E&&) noexcept {
    done->store(3);
  }
  void set_done() noexcept { done->store(2); }
};

}  // namespace

int main(int argc, char** argv) {
  args a = parse_args(argc, argv);
  rng r(a.seed);
  long rounds = a.iters;
  int per = (int)a.geti("per", 200);
  const int threads_before = count_threads();
  if (a.mode == "loop") {
    totals t;
    for (long i = 0; i < rounds; ++i) {
      unifex::manual_event_loop loop;
      std::atomic<uint64_t> runner{0};
      std::thread th([&] {
        runner.store(self_id(), std::memory_order_release);
        loop.run();
      });
      while (!runner.load(std::memory_order_acquire))
        sched_yield();
      std::set<uint64_t> allowed{runner.load()};
      round("manual_event_loop", loop.get_scheduler(), 1 + r.below(a.threads), per, r, t, &allowed, true, true, [&] {
        // stop after every item was accepted: run() must still execute all of them
        loop.stop();
        th.join();
      });
    }
    report_tot("loop", t);
  } else if (a.mode == "stc") {
    totals t;
    for (long i = 0; i < rounds; ++i) {
      auto ctx = std::make_unique<unifex::single_thread_context>();
      std::set<uint64_t> allowed{thread_of(ctx->get_scheduler())};
      auto sched = ctx->get_scheduler();
      round("single_thread_context", sched, 1 + r.below(a.threads), per, r, t, &allowed, true, true,
            [&] { ctx.reset(); /* destructor: stop + join; accepted items must all have run */ });
    }
    report_tot("stc", t);
  } else if (a.mode == "pool") {
    totals t;
    for (long i = 0; i < rounds; ++i) {
      static const int sizes[] = {1, 2, 4, 16};
      int n = sizes[r.below(4)];
      auto ctx = std::make_unique<unifex::static_thread_pool>(n);
      auto sched = ctx->get_scheduler();
      round("static_thread_pool", sched, 1 + r.below(a.threads), per, r, t, nullptr, n == 1, true, [&] { ctx.reset(); }, n);
    }
    report_tot("pool", t);
  } else if (a.mode == "timed") {
    totals t;
    for (long i = 0; i < rounds; ++i) {
      auto ctx = std::make_unique<unifex::timed_single_thread_context>();
      std::set<uint64_t> allowed{thread_of(ctx->get_scheduler())};
      auto sched = ctx->get_scheduler();
      round("timed_single_thread_context", sched, 1 + r.below(a.threads), per, r, t, &allowed, true, true, [&] {});
      ctx.reset();
    }
    report_tot("timed", t);
  } else if (a.mode == "newthread") {
    totals t;
    for (long i = 0; i < rounds; ++i) {
      auto ctx = std::make_unique<unifex::new_thread_context>();
      auto sched = ctx->get_scheduler();
      round("new_thread_context", sched, 1 + r.below(2), std::min(per, 40), r, t, nullptr, false, true, [&] { ctx.reset(); });
    }
    report_tot("newthread", t);
  } else if (a.mode == "anysched") {
    totals t;
    for (long i = 0; i < rounds; ++i) {
      auto ctx = std::make_unique<unifex::single_thread_context>();
      std::set<uint64_t> allowed{thread_of(ctx->get_scheduler())};
      unifex::any_scheduler sched = ctx->get_scheduler();
      unifex::any_scheduler copy = sched;
      if (!(copy == sched))
        violation("C18:any_scheduler:copy-not-equal", "copy of any_scheduler compares unequal");
      round("any_scheduler(single_thread_context)", sched, 1 + r.below(a.threads), per, r, t, &allowed, true, true,
            [&] { ctx.reset(); });
    }
    report_tot("anysched", t);
  } else if (a.mode == "inline") {
    totals t;
    for (long i = 0; i < rounds; ++i)
      round("inline_scheduler", unifex::inline_scheduler{}, 1 + r.below(a.threads), per, r, t, nullptr, false, false, [] {});
    report_tot("inline", t);
  } else if (a.mode == "tuel") {
    // single thread by contract: items complete during run, in FIFO order
    totals t;
    for (long i = 0; i < rounds; ++i) {
      unifex::thread_unsafe_event_loop loop;
      auto sched = loop.get_scheduler();
      // drive the loop from this thread by sync_wait-ing a probe after scheduling
      ctxinfo ci{"thread_unsafe_event_loop"};
      std::deque<item> items(per);
      using op_t = decltype(unifex::connect(unifex::schedule(sched), std::declval<ircv<decltype(sched)>>()));
      std::deque<unifex::manual_lifetime<op_t>> ops(per);
      for (int k = 0; k < per; ++k) {
        items[k].producer = self_id();
        items[k].stop_first = r.chance(1, 6);
        if (items[k].stop_first)
          items[k].src.request_stop();
        ops[k].construct_with([&] { return unifex::connect(unifex::schedule(sched), ircv<decltype(sched)>{&items[k], &ci}); });
        items[k].start_call = now();
        unifex::start(ops[k].get());
        items[k].start_ret = now();
      }
      // sync_wait drives the loop until its own item (enqueued last) completes
      (void)loop.sync_wait(unifex::schedule(sched));  // NOLINT
      uint64_t prev = 0;
      for (int k = 0; k < per; ++k) {
        int res = items[k].result.load();
        if (res == R_PENDING)
          violation("C06:sched:item-lost", "thread_unsafe_event_loop: item %d not run although a later item ran", k);
        if (items[k].stop_first ? res != R_DONE : res != R_VALUE)
          violation("C06:sched:unexpected-completion", "thread_unsafe_event_loop: result %d stop_first=%d", res, (int)items[k].stop_first);
        if (items[k].cseq.load() < prev)
          violation("C06:sched:fifo-inversion", "thread_unsafe_event_loop: item %d ran before an earlier one", k);
        prev = items[k].cseq.load();
        ++t.items;
        ++t.fifo_checked;
        ops[k].destruct();
      }
      ++t.rounds;
    }
    report_tot("tuel", t);
  } else if (a.mode == "trampoline") {
    long total = 0, max_seen = 0;
    for (long i = 0; i < rounds; ++i) {
      static const int depths[] = {0, 1, 2, 16};
      int depth = depths[r.below(4)];
      int n = 1 + r.below(1000);
      tramp_state st{unifex::trampoline_scheduler{(std::size_t)depth}, n - 1, 0, 1 + (int)r.below(3), {}};
      tl_depth = tl_max_depth = 0;
      st.ops.emplace_back();
      st.ops.back().construct_with([&] { return unifex::connect(st.sched.schedule(), tramp_rcv{&st}); });
      unifex::start(st.ops.back().get());
      // the outermost start() has returned: every deferred item must have run
      if (st.completed != n)
        violation("C06:trampoline:deferred-items-left", "depth=%d: %d of %d items ran before the outermost start() returned",
                  depth, st.completed, n);
      int limit = std::max(1, depth);
      if (tl_max_depth > limit)
        violation("C06:trampoline:nesting-exceeds-depth", "configured depth %d, observed nesting %d", depth, tl_max_depth);
      max_seen = std::max<long>(max_seen, tl_max_depth);
      total += n;
      for (auto& o : st.ops)
        o.destruct();
    }
    stat_add("trampoline_items", total);
    stat_add("items_total", total);
    stat_add("trampoline_max_nesting_seen", max_seen);
    stat_add("trampoline_rounds", rounds);
  } else if (a.mode == "subsched") {
    // schedule_with_subscheduler hands the receiver a scheduler equal to the one it ran on
    long n = 0;
    for (long i = 0; i < rounds; ++i) {
      unifex::single_thread_context ctx;
      uint64_t ctid = thread_of(ctx.get_scheduler());
      using rc = subsched_rc<decltype(ctx.get_scheduler())>;
      for (int k = 0; k < per; ++k) {
        std::atomic<int> done{0};
        auto op = unifex::connect(unifex::schedule_with_subscheduler(ctx.get_scheduler()), rc{&done, ctid, ctx.get_scheduler()});
        unifex::start(op);
        while (!done.load(std::memory_order_acquire))
          sched_yield();
        ++n;
      }
    }
    stat_add("subsched_items", n);
    stat_add("items_total", n);
  } else {
    fprintf(stderr, "unknown mode\n");
    return 2;
  }
  // context destructors join every thread they created
  int after = count_threads();
#if defined(__SANITIZE_THREAD__)
  after = threads_before;  // TSan runs a background thread of its own (and reports leaked threads itself)
#elif defined(__has_feature)
#  if __has_feature(thread_sanitizer)
  after = threads_before;
#  endif
#endif
  if (after != threads_before)
    violation("C06:sched:threads-outlive-context", "%d threads before, %d after all contexts were destroyed", threads_before, after);
  stat_add("thread_count_checks", 1);
  report();
  return 0;
}
