// C10: coroutine tasks. One binary interprets "plans" given in the scenario line, so thousands of
// task nestings / exit paths / cleanup counts run without recompiling.
//
//   plan=<ret>|<step>,<step>,.../<ret>|<step>,...        plan 0 is the root task
//   steps:  v<id>  val r = co_await leaf<val>(id)            (not scheduler affine -> task hops back)
//           V<id>  same, leaf declares is_always_scheduler_affine
//           o<id>  co_await leaf<void>(id)     O<id> affine flavour
//           c<p>   val r = co_await run_plan(p)               (nested task)
//           s<p>   val r = co_await as_sender-free "sender" use of a task: connect via let_value
//           x<k>   co_await at_coroutine_exit(cleanup k)      (cleanup logs X+ k / X- k)
//           y<k>   as x, the cleanup task awaits leaf<void>(k) between X+ and X-
//           l<id>  tracked local (destructor logs "~ id")
//           t<id>  throw err_exc{id}
//           a<id>  val r = co_await a plain awaitable (await_transform round trip)
//           e<id>  co_await a plain awaitable whose await_resume throws err_exc{id}
//           q0     co_await stop_if_requested()
//           z0     co_await async_trace_sender{}: logs "Z n=<entries> root=<the chain reaches the outer receiver>"
//           d0     val r = co_await done_as_optional(leaf) style: co_await just_done() | done_as_optional
#include <vf/det_main.hpp>

#include <unifex/connect_awaitable.hpp>
#include <unifex/async_trace.hpp>
#include <unifex/at_coroutine_exit.hpp>
#include <unifex/just.hpp>
#include <unifex/let_value.hpp>
#include <unifex/stop_if_requested.hpp>
#include <unifex/task.hpp>
#include <unifex/then.hpp>

namespace {

struct step_t {
  char op;
  int a;
};
struct plan_t {
  int ret;
  std::vector<step_t> steps;
};
std::vector<plan_t> PLANS;

void parse_plans(const std::string& s) {
  PLANS.clear();
  std::stringstream ss(s);
  std::string p;
  while (std::getline(ss, p, '/')) {
    plan_t pl{};
    auto bar = p.find('|');
    pl.ret = std::atoi(p.substr(0, bar).c_str());
    std::stringstream st(p.substr(bar + 1));
    std::string t;
    while (std::getline(st, t, ','))
      if (!t.empty())
        pl.steps.push_back({t[0], std::atoi(t.c_str() + 1)});
    PLANS.push_back(pl);
  }
}

using LV = vf::leaf<vf::val, unifex::_block::_enum::maybe, true, false, false>;
using LVA = vf::leaf<vf::val, unifex::_block::_enum::maybe, true, true, false>;
using L0 = vf::leaf<void, unifex::_block::_enum::maybe, true, false, false>;
using L0A = vf::leaf<void, unifex::_block::_enum::maybe, true, true, false>;

struct locals_t {
  std::vector<int> ids;
  ~locals_t() {
    for (auto it = ids.rbegin(); it != ids.rend(); ++it)
      vf::ev("~ %d", *it);
  }
};

struct frame_marker : vf::tracked<vf::K_MISC> {
  int pid, inst;
  frame_marker(int p, int i) : pid(p), inst(i) {}
  ~frame_marker() { vf::ev("T~ %d %d", pid, inst); }
};

// a plain awaitable (neither a sender nor customised): resumes the awaiter inline
struct plain_awaitable : vf::tracked<vf::K_MISC> {
  int id;
  bool throws;
  plain_awaitable(int i, bool t) : id(i), throws(t) {}
  bool await_ready() const noexcept { return false; }
  bool await_suspend(unifex::coro::coroutine_handle<>) const noexcept {
    vf::ev("AW %d tag=%d", id, vf::G.cur_tag);
    return false;  // resume immediately
  }
  vf::val await_resume() const {
    if (throws)
      throw vf::err_exc{id};
    return vf::val{id};
  }
};

int g_inst = 0;

unifex::task<void> cleanup_action(int k, bool with_leaf) {
  vf::ev("X+ %d tag=%d", k, vf::G.cur_tag);
  if (with_leaf)
    co_await L0{k};
  vf::ev("X- %d tag=%d", k, vf::G.cur_tag);
}

unifex::task<vf::val> run_plan(int pid) {
  const int inst = g_inst++;
  frame_marker fm{pid, inst};
  locals_t locals;
  vf::ev("T+ %d %d tag=%d", pid, inst, vf::G.cur_tag);
  const plan_t pl = PLANS.at(pid);
  int i = 0;
  for (const step_t& st : pl.steps) {
    const int a = st.a;
    switch (st.op) {
      case 'v': {
        vf::val r = co_await LV{a};
        vf::ev("B %d %d %d v %d tag=%d", pid, inst, i, r.id, vf::G.cur_tag);
        break;
      }
      case 'V': {
        vf::val r = co_await LVA{a};
        vf::ev("B %d %d %d v %d tag=%d", pid, inst, i, r.id, vf::G.cur_tag);
        break;
      }
      case 'o':
        co_await L0{a};
        vf::ev("B %d %d %d v - tag=%d", pid, inst, i, vf::G.cur_tag);
        break;
      case 'O':
        co_await L0A{a};
        vf::ev("B %d %d %d v - tag=%d", pid, inst, i, vf::G.cur_tag);
        break;
      case 'c': {
        vf::val r = co_await run_plan(a);
        vf::ev("B %d %d %d v %d tag=%d", pid, inst, i, r.id, vf::G.cur_tag);
        break;
      }
      case 's': {
        // the nested task used as a sender inside a sender algorithm
        vf::val r = co_await unifex::then(run_plan(a), [](vf::val v) { return vf::val{v.id + 1}; });
        vf::ev("B %d %d %d v %d tag=%d", pid, inst, i, r.id, vf::G.cur_tag);
        break;
      }
      case 'x':
        co_await unifex::at_coroutine_exit(cleanup_action, a, false);
        break;
      case 'y':
        co_await unifex::at_coroutine_exit(cleanup_action, a, true);
        break;
      case 'l':
        locals.ids.push_back(a);
        break;
      case 't':
        vf::ev("TH %d %d %d e%d", pid, inst, i, a);
        throw vf::err_exc{a};
      case 'a': {
        vf::val r = co_await plain_awaitable{a, false};
        vf::ev("B %d %d %d v %d tag=%d", pid, inst, i, r.id, vf::G.cur_tag);
        break;
      }
      case 'e': {
        vf::val r = co_await plain_awaitable{a, true};
        vf::ev("B %d %d %d v %d tag=%d", pid, inst, i, r.id, vf::G.cur_tag);
        break;
      }
      case 'z': {
        auto entries = co_await unifex::async_trace_sender{};
        int root = 0;
        for (auto& e : entries) {
          auto it = vf::G.live.find(e.continuation.address());
          if (it != vf::G.live.end() && it->second.kind == vf::K_RCVR)
            root = 1;
        }
        vf::ev("Z n=%zu root=%d", entries.size(), root);
        vf::ev("B %d %d %d v - tag=%d", pid, inst, i, vf::G.cur_tag);
        break;
      }
      case 'q':
        co_await unifex::stop_if_requested();
        vf::ev("B %d %d %d v - tag=%d", pid, inst, i, vf::G.cur_tag);
        break;
      default:
        vf::viol("bad-plan-step %c", st.op);
    }
    ++i;
  }
  vf::ev("T= %d %d %d", pid, inst, pl.ret);
  co_return vf::val{pl.ret};
}

// task<> handle ownership: a task that is overwritten by move-assignment, moved from, or dropped without ever being
// awaited owns a suspended frame that must be destroyed exactly once (the frame's by-value parameter is the witness)
struct frame_witness {
  static int& live() {
    static int n = 0;
    return n;
  }
  frame_witness() { ++live(); }
  frame_witness(const frame_witness&) { ++live(); }
  ~frame_witness() { --live(); }
};
unifex::task<void> witness_task(frame_witness) {
  co_return;
}
void handle_ownership_probe() {
  int before = frame_witness::live();
  {
    auto t = witness_task(frame_witness{});
    for (int i = 0; i < 3; ++i)
      t = witness_task(frame_witness{});  // overwrite an unstarted task
    unifex::task<void> u = std::move(t);  // move construction
    t = witness_task(frame_witness{});    // assign onto a moved-from task
    u = std::move(t);                     // overwrite an unstarted task with another live one
  }
  if (frame_witness::live() != before)
    vf::viol("task-frame-not-destroyed-exactly-once n=%d frames alive after unstarted tasks were overwritten/dropped",
             frame_witness::live() - before);
}

template <int Tok>
void run() {
  auto it = vf::G.scn.kv.find("plan");
  parse_plans(it == vf::G.scn.kv.end() ? std::string("1|") : it->second);
  g_inst = 0;
  vf::run_program<Tok, false>([] { return run_plan(0); });
  if (vf::G.scn.throw_at == 0)
    handle_ownership_probe();
}

vf::registrar r0{0, &run<vf::TOK_COUNTING>};
vf::registrar r1{1, &run<vf::TOK_INPLACE>};
vf::registrar r2{2, &run<vf::TOK_NONE>};

}  // namespace

int main(int argc, char** argv) {
  return vf::det_main(argc, argv);
}
