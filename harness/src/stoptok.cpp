// C03: stop-token protocol under multi-threaded stress (DESIGN.md section 5, C03).
// Many short histories; each is checked against the sequential rules of a stop source using a
// real-time order derived from one relaxed global counter (call events logged before the call,
// return events after it returned; only ret(a) < call(b) is used as "a before b").
#include <vf/mt.hpp>

#include <unifex/fused_stop_source.hpp>
#include <unifex/inplace_stop_token.hpp>

#include <memory>

using namespace vf::mt;

namespace {

std::atomic<uint64_t> g_seq{1};
inline uint64_t now() {
  return g_seq.fetch_add(1, std::memory_order_relaxed);
}

// a non-inplace token type (forces the adapter / fused callback paths)
struct mtoken {
  unifex::inplace_stop_token t;
  template <class F>
  using callback_type = unifex::inplace_stop_callback<F>;
  bool stop_requested() const noexcept { return t.stop_requested(); }
  bool stop_possible() const noexcept { return t.stop_possible(); }
  operator unifex::inplace_stop_token() const noexcept { return t; }
};
}  // namespace
namespace unifex {
// inplace_stop_callback<F> is constructible from inplace_stop_token; give it an mtoken overload
}  // namespace unifex

namespace {

enum { B_NONE = 0, B_SELF_DESTROY = 1, B_KILL_SIBLING = 2, B_REGISTER_NEW = 3, B_VICTIM = 4 };

struct slot;
struct cbfn {
  slot* s;
  void operator()() noexcept;
};
using cb_t = unifex::inplace_stop_callback<cbfn>;

struct slot {
  int idx = 0;
  int behaviour = B_NONE;
  int sibling = -1;
  void* mem = nullptr;  // storage of the registration (freed when deregistered)
  std::atomic<int> executed{0};
  std::atomic<int> in_callback{0};
  std::atomic<uint64_t> cb_thread{0};
  std::atomic<bool> destroyed{false};
  std::atomic<bool> dereg_returned{false};
  std::atomic<bool> registered{false};
  // event sequence numbers (0 = did not happen)
  std::atomic<uint64_t> reg_call{0}, reg_ret{0}, dereg_call{0}, dereg_ret{0}, cb_enter{0}, cb_exit{0};
  std::atomic<uint64_t> dereg_thread{0};
  // nested registration made from inside the callback (B_REGISTER_NEW)
  std::atomic<int> nested_executed{0};
};

struct history {
  unifex::inplace_stop_source up0, up1;  // upstream sources
  unifex::fused_stop_source<unifex::inplace_stop_token, mtoken> fused;
  unifex::inplace_stop_token_adapter<mtoken> adapter;
  unifex::inplace_stop_token tok;  // the token callbacks register on
  int flavour = 0;
  std::vector<std::unique_ptr<slot>> slots;
  // requesters
  struct req {
    std::atomic<uint64_t> call{0}, ret{0};
    std::atomic<int> was_first{-1};
    int which = 0;
  };
  std::vector<std::unique_ptr<req>> reqs;
};

thread_local uint64_t t_id = 0;
history* H = nullptr;

uint64_t my_tid() {
  if (!t_id)
    t_id = (uint64_t)pthread_self();
  return t_id;
}

void destroy_registration(slot* s) {
  // arbitration: exactly one party destroys a registration
  if (s->destroyed.exchange(true, std::memory_order_relaxed))
    return;
  cb_t* cb = static_cast<cb_t*>(s->mem);
  s->dereg_thread.store(my_tid(), std::memory_order_relaxed);
  s->dereg_call.store(now(), std::memory_order_relaxed);
  cb->~cb_t();
  s->dereg_ret.store(now(), std::memory_order_relaxed);
  s->dereg_returned.store(true, std::memory_order_relaxed);
  // once deregistration returned, the callback must not be running on another thread
  if (s->in_callback.load(std::memory_order_relaxed) &&
      s->cb_thread.load(std::memory_order_relaxed) != my_tid()) {
    violation("C03:stoptok:callback-running-after-deregistration-returned", "slot %d flavour %d", s->idx,
              H->flavour);
  }
  std::free(s->mem);  // ASan: a late execution touches freed memory
  s->mem = nullptr;
}

void cbfn::operator()() noexcept {
  slot* sl = s;
  if (sl->dereg_returned.load(std::memory_order_relaxed))
    violation("C03:stoptok:callback-started-after-deregistration-returned", "slot %d", sl->idx);
  if (sl->executed.fetch_add(1, std::memory_order_relaxed) != 0)
    violation("C03:stoptok:callback-executed-twice", "slot %d", sl->idx);
  sl->cb_thread.store(my_tid(), std::memory_order_relaxed);
  sl->in_callback.store(1, std::memory_order_relaxed);
  sl->cb_enter.store(now(), std::memory_order_relaxed);
  int beh = sl->behaviour;
  if (trng().chance(1, 3))
    spin_ns(trng().below(3000));
  else if (trng().chance(1, 4))
    spin_ns(trng().below(60000));  // long callback: deregistration on another thread must wait
  if (beh == B_KILL_SIBLING && sl->sibling >= 0) {
    slot* sib = H->slots[sl->sibling].get();
    if (sib->registered.load(std::memory_order_acquire))
      destroy_registration(sib);
  } else if (beh == B_REGISTER_NEW) {
    struct nested {
      slot* s;
      void operator()() noexcept { s->nested_executed.fetch_add(1, std::memory_order_relaxed); }
    };
    {
      unifex::inplace_stop_callback<nested> n(H->tok, nested{sl});
      // stop has been requested (we are running), so the nested callback must have run inline
      if (sl->nested_executed.load(std::memory_order_relaxed) != 1)
        violation("C03:stoptok:registration-after-stop-did-not-run-inline", "slot %d nested=%d", sl->idx,
                  sl->nested_executed.load());
    }
  }
  if (sl->dereg_returned.load(std::memory_order_relaxed))
    violation("C03:stoptok:deregistration-returned-while-callback-running", "slot %d", sl->idx);
  sl->cb_exit.store(now(), std::memory_order_relaxed);
  sl->in_callback.store(0, std::memory_order_relaxed);
  if (beh == B_SELF_DESTROY) {
    // deregister ourselves from inside the callback: must not deadlock
    destroy_registration(sl);
  }
}

void do_register(slot* s) {
  s->mem = std::malloc(sizeof(cb_t));
  s->reg_call.store(now(), std::memory_order_relaxed);
  new (s->mem) cb_t(H->tok, cbfn{s});
  s->reg_ret.store(now(), std::memory_order_relaxed);
  s->registered.store(true, std::memory_order_release);
}

struct outcome_counts {
  long histories = 0, executed = 0, not_executed = 0, inline_exec = 0, waited_dereg = 0, self_destroy = 0,
       sibling_kill = 0, second_requester_lost = 0, overlapping = 0, nested = 0, dereg_during_cb = 0;
};

void check_history(history& h, outcome_counts& oc, counters& ctr) {
  // requesters: exactly one first per upstream source
  uint64_t first_call = 0, first_ret = 0, earliest_call = 0;
  for (int which = 0; which < 2; ++which) {
    int firsts = 0, calls = 0;
    for (auto& r : h.reqs) {
      if (r->which != which || !r->call.load())
        continue;
      ++calls;
      if (r->was_first.load() == 1)
        ++firsts;
    }
    if (calls && firsts != 1)
      violation("C03:stoptok:request_stop-first-count", "flavour %d source %d: %d calls, %d reported first",
                h.flavour, which, calls, firsts);
    if (calls > 1)
      oc.second_requester_lost += calls - 1;
  }
  // first_ret: earliest return of a request that performed the stop (after it, `tok` is stopped);
  // all_first_call / all_first_ret: span covering every performing request
  uint64_t all_first_call = 0, all_first_ret = 0;
  for (auto& r : h.reqs) {
    uint64_t c = r->call.load(), rt = r->ret.load();
    if (!c)
      continue;
    if (!earliest_call || c < earliest_call)
      earliest_call = c;
    if (r->was_first.load() != 1)
      continue;
    if (!first_ret || rt < first_ret) {
      first_ret = rt;
      first_call = c;
    }
    if (!all_first_call || c < all_first_call)
      all_first_call = c;
    if (rt > all_first_ret)
      all_first_ret = rt;
  }
  (void)first_call;
  bool any_request = earliest_call != 0;
  for (auto& sp : h.slots) {
    slot& s = *sp;
    if (!s.reg_call.load())
      continue;
    int ex = s.executed.load();
    if (ex)
      ++oc.executed;
    else
      ++oc.not_executed;
    uint64_t rc = s.reg_call.load(), rr = s.reg_ret.load(), dc = s.dereg_call.load(), dr = s.dereg_ret.load();
    uint64_t ce = s.cb_enter.load(), cx = s.cb_exit.load();
    if (ex > 1)
      violation("C03:stoptok:callback-executed-twice", "slot %d count %d", s.idx, ex);
    if (!any_request && ex)
      violation("C03:stoptok:callback-executed-without-stop", "slot %d flavour %d", s.idx, h.flavour);
    if (any_request) {
      // registered before every performing request_stop() began and until all of them returned
      // => must have executed
      if (all_first_call && rr < all_first_call && dc > all_first_ret && ex == 0) {
        violation("C03:stoptok:callback-not-executed-although-registered-during-stop",
                  "slot %d flavour %d reg_ret=%llu req=[%llu,%llu] dereg_call=%llu", s.idx, h.flavour,
                  (unsigned long long)rr, (unsigned long long)all_first_call, (unsigned long long)all_first_ret,
                  (unsigned long long)dc);
      }
      // deregistered entirely before any request began => must not have executed
      if (dr && dr < earliest_call && ex)
        violation("C03:stoptok:callback-executed-after-deregistration", "slot %d flavour %d", s.idx, h.flavour);
      // registration began after a request had returned => must have run inline in the constructor
      if (first_ret && rc > first_ret) {
        if (ex != 1 || !(ce > rc && cx < rr))
          violation("C03:stoptok:late-registration-not-run-inline",
                    "slot %d flavour %d ex=%d reg=[%llu,%llu] cb=[%llu,%llu]", s.idx, h.flavour, ex,
                    (unsigned long long)rc, (unsigned long long)rr, (unsigned long long)ce, (unsigned long long)cx);
        else
          ++oc.inline_exec;
      }
    }
    if (ex && dr) {
      bool same_thread = s.dereg_thread.load() == s.cb_thread.load() && dc > ce;
      if (!same_thread && cx > dr)
        violation("C03:stoptok:callback-exit-after-deregistration-returned", "slot %d flavour %d cb_exit=%llu dereg_ret=%llu",
                  s.idx, h.flavour, (unsigned long long)cx, (unsigned long long)dr);
      if (!same_thread && dc < cx && dr > ce)
        ++oc.waited_dereg;  // destructor overlapped the running callback and had to wait
      if (same_thread && dc < cx)
        ++oc.dereg_during_cb;
    }
    if (s.behaviour == B_SELF_DESTROY && ex)
      ++oc.self_destroy;
    if (s.behaviour == B_KILL_SIBLING && ex)
      ++oc.sibling_kill;
    if (s.nested_executed.load())
      ++oc.nested;
  }
  ++oc.histories;
  ctr.add("histories");
}

void run_history(rng& r, int R, int S, outcome_counts& oc, counters& ctr, int flavour_mask) {
  history h;
  H = &h;
  int fl;
  do {
    fl = r.below(3);
  } while (!((flavour_mask >> fl) & 1));
  h.flavour = fl;
  if (h.flavour == 0) {
    h.tok = h.up0.get_token();
  } else if (h.flavour == 1) {
    h.fused.register_callbacks(h.up0.get_token(), mtoken{h.up1.get_token()});
    h.tok = h.fused.get_token();
  } else {
    h.tok = h.adapter.subscribe(mtoken{h.up0.get_token()});
  }
  int nslots = 2 + r.below(5);
  for (int i = 0; i < nslots; ++i) {
    auto s = std::make_unique<slot>();
    s->idx = i;
    s->behaviour = r.below(10) < 5 ? B_NONE : 1 + r.below(3);
    h.slots.push_back(std::move(s));
  }
  // sibling victims: a killer at i targets i+1, which nobody else deregisters before the end
  for (int i = 0; i + 1 < nslots; ++i) {
    if (h.slots[i]->behaviour == B_KILL_SIBLING) {
      h.slots[i]->sibling = i + 1;
      h.slots[i + 1]->behaviour = B_VICTIM;
    }
  }
  for (int i = 0; i < S; ++i) {
    auto q = std::make_unique<history::req>();
    q->which = (h.flavour == 1) ? (int)r.below(2) : 0;
    h.reqs.push_back(std::move(q));
  }
  bool do_request = !r.chance(1, 8);  // some histories never request stop
  barrier bar(R + S);
  std::vector<std::thread> ths;
  uint64_t base = r.next();
  for (int t = 0; t < R; ++t) {
    ths.emplace_back([&, t] {
      rng lr(base + t * 977);
      bar.wait();
      bool seen = false;
      for (int i = t; i < nslots; i += R) {
        slot* s = h.slots[i].get();
        if (lr.chance(1, 2))
          spin_ns(lr.below(4000));
        do_register(s);
        bool sr = h.tok.stop_requested();
        if (seen && !sr)
          violation("C03:stoptok:stop_requested-reverted", "flavour %d", h.flavour);
        seen = seen || sr;
        if (s->behaviour == B_NONE || s->behaviour == B_REGISTER_NEW || s->behaviour == B_KILL_SIBLING) {
          if (lr.chance(2, 3)) {
            if (lr.chance(1, 2))
              spin_ns(lr.below(lr.chance(1, 3) ? 60000 : 6000));
            destroy_registration(s);
          }
        }
      }
    });
  }
  for (int t = 0; t < S; ++t) {
    ths.emplace_back([&, t] {
      rng lr(base + 5000 + t * 131);
      bar.wait();
      if (!do_request)
        return;
      spin_ns(lr.below(8000));
      auto& q = *h.reqs[t];
      unifex::inplace_stop_source& src = q.which ? h.up1 : h.up0;
      q.call.store(now(), std::memory_order_relaxed);
      bool already = src.request_stop();
      q.ret.store(now(), std::memory_order_relaxed);
      q.was_first.store(already ? 0 : 1, std::memory_order_relaxed);
      if (!h.up0.stop_requested() && !h.up1.stop_requested())
        violation("C03:stoptok:stop_requested-false-after-request_stop", "flavour %d", h.flavour);
    });
  }
  for (auto& t : ths)
    t.join();
  // end of history: whoever is still registered is deregistered now (quiescent)
  for (auto& s : h.slots)
    if (s->registered.load() && !s->destroyed.load())
      destroy_registration(s.get());
  if (h.flavour == 1)
    h.fused.deregister_callbacks();
  else if (h.flavour == 2)
    h.adapter.unsubscribe();
  check_history(h, oc, ctr);
  if (oc.histories % 4001 == 1) {
    char b[256];
    snprintf(b, sizeof b, "history flavour=%d slots=%d R=%d S=%d request=%d: executed=%d", h.flavour, nslots, R, S,
             (int)do_request, (int)std::count_if(h.slots.begin(), h.slots.end(), [](auto& s) { return s->executed.load() > 0; }));
    sample(b);
  }
  H = nullptr;
}

}  // namespace

int main(int argc, char** argv) {
  args a = parse_args(argc, argv);
  rng r(a.seed);
  outcome_counts oc;
  {
    counters ctr;
    int maxR = (int)a.geti("maxR", 2), maxS = (int)a.geti("maxS", 2);
    int mask = (int)a.geti("flavours", 7);
    for (long i = 0; i < a.iters; ++i) {
      int R = 1 + r.below(maxR), S = 1 + r.below(maxS);
      run_history(r, R, S, oc, ctr, mask);
    }
  }
  stat_add("callbacks_executed", oc.executed);
  stat_add("callbacks_not_executed", oc.not_executed);
  stat_add("outcome_inline_execution_in_constructor", oc.inline_exec);
  stat_add("outcome_destructor_waited_for_running_callback", oc.waited_dereg);
  stat_add("outcome_self_deregistration_inside_callback", oc.self_destroy);
  stat_add("outcome_sibling_destroyed_from_callback", oc.sibling_kill);
  stat_add("outcome_second_requester_lost", oc.second_requester_lost);
  stat_add("outcome_nested_registration", oc.nested);
  report();
  return 0;
}
