// C10 (multi-threaded part): a stop request arriving from another thread while a task<> tree runs on its
// own scheduler.  The task runs on timed context A; the stop comes from stop_when's trigger, a timer on context
// B; the outer receiver is sync_wait's (manual_event_loop on the main thread).  The stop-request thunk of task<>
// must deliver the request on A, join that delivery with the task's completion, and complete exactly once.
//
// Monitors: exactly one outcome per round (value => every step ran; done => stop observed), every coroutine
// frame destroyed (live counter), every registered cleanup action ran exactly once and in reverse order per
// frame, every resumption of a task body on context A's thread, sanitizer (ASan/UBSan or TSan).
#include <vf/mt.hpp>

#include <unifex/at_coroutine_exit.hpp>
#include <unifex/v2/async_manual_reset_event.hpp>
#include <unifex/just.hpp>
#include <unifex/on.hpp>
#include <unifex/scheduler_concepts.hpp>
#include <unifex/stop_if_requested.hpp>
#include <unifex/stop_when.hpp>
#include <unifex/sync_wait.hpp>
#include <unifex/task.hpp>
#include <unifex/then.hpp>
#include <unifex/timed_single_thread_context.hpp>
#include <unifex/when_all.hpp>

#include <chrono>
#include <optional>
#include <thread>
#include <vector>

using namespace vf::mt;
using namespace std::chrono_literals;

namespace {

using sched_t = decltype(std::declval<unifex::timed_single_thread_context&>().get_scheduler());

std::atomic<long> g_frames_live{0};
std::atomic<long> g_frames_total{0};
std::atomic<long> g_cleanups_registered{0}, g_cleanups_run{0};
std::atomic<long> g_steps{0};
std::atomic<long> g_wrong_thread{0};
std::thread::id g_ctxA_thread;

struct frame_marker {
  std::vector<int> order;  // cleanup ids in the order they ran
  int registered = 0;
  frame_marker() {
    g_frames_live.fetch_add(1, std::memory_order_relaxed);
    g_frames_total.fetch_add(1, std::memory_order_relaxed);
  }
  ~frame_marker() { g_frames_live.fetch_sub(1, std::memory_order_relaxed); }
};

struct plan {
  int depth;
  int steps;
  int cleanups;
  bool hang_at_end;  // last step waits "forever": only a delivered stop request ends the round
  uint64_t seed;
};

inline void on_body_thread(const char* where) {
  if (std::this_thread::get_id() != g_ctxA_thread) {
    g_wrong_thread.fetch_add(1, std::memory_order_relaxed);
    violation("C10:coromt:resumed-on-wrong-thread", "%s ran off the task's scheduler", where);
    violation("C11:coromt:resumed-on-wrong-thread", "%s ran off the task's scheduler", where);
  }
}

// cleanup bookkeeping lives outside the frame (the frame's locals are gone when cleanups run)
struct cleanup_log {
  std::mutex mu;
  std::vector<std::pair<long, int>> ran;  // (frame serial, k)
};
cleanup_log g_clog;

unifex::task<void> cleanup_action(long frame_serial, int k, bool async,
                                  sched_t s) {
  on_body_thread("cleanup action");
  if (async)
    co_await unifex::schedule_after(s, 5us);
  on_body_thread("cleanup action (after await)");
  g_cleanups_run.fetch_add(1, std::memory_order_relaxed);
  std::lock_guard<std::mutex> lk(g_clog.mu);
  g_clog.ran.push_back({frame_serial, k});
}

unifex::task<int> body(plan p, sched_t s) {
  frame_marker fm;
  const long serial = g_frames_total.load(std::memory_order_relaxed);
  rng r(p.seed);
  on_body_thread("task body start");
  int acc = 0;
  int reg = 0;
  for (int i = 0; i < p.steps; ++i) {
    if (reg < p.cleanups && r.below(2) == 0) {
      g_cleanups_registered.fetch_add(1, std::memory_order_relaxed);
      co_await unifex::at_coroutine_exit(cleanup_action, serial, reg, r.below(3) == 0, s);
      ++reg;
    }
    switch (r.below(5)) {
      case 0:
      case 1:
        co_await unifex::schedule_after(s, std::chrono::microseconds(r.below(120)));
        break;
      case 2:
        if (p.depth > 0) {
          acc += co_await body(plan{p.depth - 1, 1 + (int)r.below(3), 2, false, r.next()}, s);
          break;
        }
        [[fallthrough]];
      case 3:
        co_await unifex::schedule(s);
        break;
      case 4:
        // a task used as a sender inside an algorithm: gets its own stop-request thunk
        if (p.depth > 0) {
          acc += co_await unifex::then(body(plan{p.depth - 1, 1 + (int)r.below(2), 1, false, r.next()}, s),
                                       [](int v) { return v; });
        } else {
          co_await unifex::stop_if_requested();
        }
        break;
    }
    on_body_thread("task body resumption");
    g_steps.fetch_add(1, std::memory_order_relaxed);
  }
  while (reg < p.cleanups) {
    g_cleanups_registered.fetch_add(1, std::memory_order_relaxed);
    co_await unifex::at_coroutine_exit(cleanup_action, serial, reg, false, s);
    ++reg;
  }
  if (p.hang_at_end) {
    if (r.below(2)) {
      co_await unifex::schedule_after(s, std::chrono::hours(1));
    } else {
      // a sender that completes inline from its stop callback, on whichever thread delivers the stop request: the
      // task's stop-request thunk must deliver it on the task's scheduler
      unifex::v2::async_manual_reset_event never_set;
      co_await never_set.async_wait();
    }
    violation("C10:coromt:resumed-after-endless-wait", "a wait that only a stop request can end completed with value");
  }
  co_return acc + 1;
}

}  // namespace

int main(int argc, char** argv) {
  args a = parse_args(argc, argv);
  rng r(a.seed * 7919 + 1);
  unifex::timed_single_thread_context ctxA, ctxB;
  auto sA = ctxA.get_scheduler();
  auto sB = ctxB.get_scheduler();
  unifex::sync_wait(unifex::then(unifex::schedule(sA), [] { g_ctxA_thread = std::this_thread::get_id(); }));
  {
  counters c;
  for (long it = 0; it < a.iters; ++it) {
    plan p{(int)r.below(3), 1 + (int)r.below(5), (int)r.below(4), r.below(3) == 0, r.next()};
    const long stop_us = r.below(4) == 0 ? 0 : (long)r.below(400);
    {
      std::lock_guard<std::mutex> lk(g_clog.mu);
      g_clog.ran.clear();
    }
    const long reg0 = g_cleanups_registered.load(), run0 = g_cleanups_run.load();
    const long steps0 = g_steps.load();
    std::optional<int> res;
    bool threw = false;
    try {
      res = unifex::sync_wait(unifex::on(
          sA, unifex::stop_when(body(p, sA), unifex::schedule_after(sB, std::chrono::microseconds(stop_us)))));
    } catch (...) {
      threw = true;
    }
    c.add("rounds_total");
    if (threw) {
      violation("C10:coromt:unexpected-error", "round %ld completed with an exception", it);
    } else if (res) {
      c.add("outcome_value");
      if (p.hang_at_end)
        violation("C10:coromt:value-despite-hang", "round %ld returned a value although its last step never finishes", it);
    } else {
      c.add("outcome_done");
    }
    if (g_frames_live.load() != 0)
      violation("C10:coromt:frame-leaked-or-alive-after-completion", "round %ld: %ld frames alive after sync_wait returned",
                it, g_frames_live.load());
    const long reg = g_cleanups_registered.load() - reg0, run = g_cleanups_run.load() - run0;
    if (reg != run)
      violation("C10:coromt:cleanup-count", "round %ld: %ld cleanup actions registered, %ld ran", it, reg, run);
    c.add("cleanups_run", run);
    c.add("steps_run", g_steps.load() - steps0);
    {
      // per frame: reverse registration order
      std::lock_guard<std::mutex> lk(g_clog.mu);
      std::map<long, int> last;
      for (auto& e : g_clog.ran) {
        auto it2 = last.find(e.first);
        if (it2 != last.end() && e.second >= it2->second)
          violation("C10:coromt:cleanup-order", "frame %ld ran cleanup %d after %d", e.first, e.second, it2->second);
        last[e.first] = e.second;
      }
    }
    if (res && !p.hang_at_end)
      c.add("completed_before_stop");
  }
  c.add("frames_total", g_frames_total.load());
  }
  report();
  return 0;
}
