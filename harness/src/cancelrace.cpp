// C19: completion vs stop vs start-return races in the cancel wrappers.
#include <vf/mt.hpp>

#include <unifex/canary.hpp>
#include <unifex/cancellable.hpp>
#include <unifex/create_basic_sender.hpp>
#include <unifex/detach_on_cancel.hpp>
#include <unifex/inplace_stop_token.hpp>
#include <unifex/receiver_concepts.hpp>
#include <unifex/sender_concepts.hpp>
#include <unifex/stop_on_request.hpp>

#include <functional>
#include <sys/syscall.h>
#include <unistd.h>
#include <memory>

using namespace vf::mt;

namespace {

std::atomic<uint64_t> g_seq{1};
inline uint64_t now() {
  return g_seq.fetch_add(1, std::memory_order_relaxed);
}

// persistent helper thread: runs one closure per round
struct helper {
  std::atomic<long> go{0}, done{0};
  std::function<void()> fn;
  std::atomic<bool> quit{false};
  std::thread th;
  helper() {
    th = std::thread([this] {
      long seen = 0;
      for (;;) {
        while (go.load(std::memory_order_acquire) == seen) {
          if (quit.load(std::memory_order_acquire))
            return;
          sched_yield();
        }
        ++seen;
        fn();
        done.store(seen, std::memory_order_release);
      }
    });
  }
  void launch(std::function<void()> f) {
    fn = std::move(f);
    go.fetch_add(1, std::memory_order_release);
  }
  void wait() {
    long g = go.load();
    while (done.load(std::memory_order_acquire) != g)
      sched_yield();
  }
  ~helper() {
    quit.store(true);
    th.join();
  }
};

constexpr int R_PENDING = 0, R_VALUE = 1, R_DONE = 2, R_ERROR = 3;

bool wait_for(std::atomic<int>& result, const char* key, const char* what, double secs = 30) {
  auto t0 = std::chrono::steady_clock::now();
  int spins = 0;
  while (result.load(std::memory_order_acquire) == R_PENDING) {
    if (++spins > 100) {
      sched_yield();
      spins = 0;
      if (std::chrono::duration<double>(std::chrono::steady_clock::now() - t0).count() > secs) {
        violation(key, "%s still pending after %.0fs", what, secs);
        report();
        _exit(0);
      }
    }
  }
  return true;
}

// ---------------------------------------------------------------------------
// cancellable<raw sender>
// ---------------------------------------------------------------------------
enum { M_INLINE = 0, M_THREAD = 1, M_NEVER = 2 };

struct race_ctl {
  int mode = M_THREAD;
  std::atomic<int> result{R_PENDING};
  std::atomic<int> completions{0};
  std::atomic<int> start_calls{0}, stop_calls{0};
  std::atomic<bool> start_entered{false};
  std::atomic<bool> stop_before_start_entered{false};
  std::atomic<void*> slot{nullptr};  // "event source" registration (pointer to the raw op)
  void (*complete_fn)(void*) = nullptr;
  unifex::inplace_stop_source src;
  // operation state storage: freed by the receiver inside its completion
  void* mem = nullptr;
  void (*destroy)(void*) = nullptr;
  std::atomic<bool> destroyed{false};
  bool free_in_completion = true;
};

struct race_rcv {
  race_ctl* c;
  void complete(int r) noexcept {
    race_ctl* ctl = c;
    if (ctl->completions.fetch_add(1, std::memory_order_relaxed) != 0)
      violation("C19:cancellable:receiver-completed-twice", "mode %d", ctl->mode);
    if (ctl->free_in_completion) {
      // the winner has completed: the operation state goes away now; any later touch is a use-after-free
      void* m = ctl->mem;
      ctl->destroy(m);
      std::free(m);
      ctl->destroyed.store(true, std::memory_order_release);
    }
    ctl->result.store(r, std::memory_order_release);
  }
  void set_value() noexcept { complete(R_VALUE); }
  template <class E>
  void set_error(E&&) noexcept {
    complete(R_ERROR);
  }
  void set_done() noexcept { complete(R_DONE); }
  friend unifex::inplace_stop_token tag_invoke(unifex::tag_t<unifex::get_stop_token>, const race_rcv& r) noexcept {
    return r.c->src.get_token();
  }
};

struct race_raw_sender {
  race_ctl* c;
  template <template <typename...> class Variant, template <typename...> class Tuple>
  using value_types = Variant<Tuple<>>;
  template <template <typename...> class Variant>
  using error_types = Variant<>;
  static constexpr bool sends_done = true;

  template <class R>
  struct op {
    race_ctl* c;
    R rcvr;
    op(race_ctl* c_, R&& r) : c(c_), rcvr(std::move(r)) {}
    op(op&&) = delete;

    static void complete_thunk(void* p) {
      op* self = static_cast<op*>(p);
      if (unifex::try_complete(self))
        unifex::set_value(std::move(self->rcvr));
    }

    void start() noexcept {
      race_ctl* ctl = c;
      if (ctl->start_calls.fetch_add(1, std::memory_order_relaxed) != 0)
        violation("C19:cancellable:nested-start-called-twice", "mode %d", ctl->mode);
      ctl->start_entered.store(true, std::memory_order_release);
      if (ctl->mode == M_INLINE) {
        if (unifex::try_complete(this))
          unifex::set_value(std::move(rcvr));
        return;
      }
      ctl->complete_fn = &complete_thunk;
      // register with the "event source"; from now on the completer thread may take and complete us
      ctl->slot.store(this, std::memory_order_release);
    }

    void stop() noexcept {
      race_ctl* ctl = c;
      if (ctl->stop_calls.fetch_add(1, std::memory_order_relaxed) != 0)
        violation("C19:cancellable:stop-hook-called-twice", "mode %d", ctl->mode);
      if (!ctl->start_entered.load(std::memory_order_acquire))
        ctl->stop_before_start_entered.store(true, std::memory_order_relaxed);
      // unregister from the event source; if the completer already took us, it completes
      void* expected = this;
      bool owned = ctl->slot.compare_exchange_strong(expected, nullptr, std::memory_order_acq_rel);
      bool never_registered = !ctl->start_entered.load(std::memory_order_acquire);
      if (owned || never_registered) {
        if (unifex::try_complete(this))
          unifex::set_done(std::move(rcvr));
      }
    }
  };

  template <class R>
  friend op<unifex::remove_cvref_t<R>> tag_invoke(unifex::tag_t<unifex::connect>, race_raw_sender&& s, R&& r) noexcept {
    return op<unifex::remove_cvref_t<R>>{s.c, (R&&)r};
  }
};

struct cstats {
  long rounds = 0, value = 0, done = 0, stop_hook = 0, stop_skipped_start = 0, completer_won = 0, inline_complete = 0,
       stop_before_start = 0, stop_during_start = 0;
};

template <bool StopsEarly>
void cancellable_round(rng& r, helper& completer, helper& stopper, cstats& st, bool fic) {
  race_ctl c;
  c.free_in_completion = fic;
  uint32_t m = r.below(10);
  c.mode = m < 2 ? M_INLINE : (m < 8 ? M_THREAD : M_NEVER);
  using sender_t = unifex::cancellable<race_raw_sender, StopsEarly>;
  using op_t = decltype(unifex::connect(std::declval<sender_t>(), std::declval<race_rcv>()));
  c.mem = std::malloc(sizeof(op_t));
  c.destroy = +[](void* p) { static_cast<op_t*>(p)->~op_t(); };
  op_t* op = new (c.mem) op_t(unifex::connect(sender_t{race_raw_sender{&c}}, race_rcv{&c}));
  bool will_stop = c.mode == M_NEVER || r.chance(1, 2);
  int stop_phase = r.below(3);  // 0 before start, 1 concurrently with start, 2 after a delay
  uint32_t cdelay = r.below(8000), sdelay = r.below(8000);
  std::atomic<bool> started_flag{false};
  if (c.mode == M_THREAD) {
    completer.launch([&c, cdelay] {
      // wait for registration, then complete after a short delay; the op may also be taken back by stop()
      int spins = 0;
      void* p = nullptr;
      for (;;) {
        if (c.result.load(std::memory_order_acquire) != R_PENDING)
          return;
        p = c.slot.load(std::memory_order_acquire);
        if (p)
          break;
        if (++spins > 200) {
          sched_yield();
          spins = 0;
        }
      }
      spin_ns(cdelay);
      p = c.slot.exchange(nullptr, std::memory_order_acq_rel);
      if (p)
        c.complete_fn(p);
    });
  }
  if (will_stop && stop_phase == 0) {
    c.src.request_stop();
    ++st.stop_before_start;
  }
  if (will_stop && stop_phase != 0) {
    stopper.launch([&c, &started_flag, stop_phase, sdelay] {
      if (stop_phase == 2) {
        while (!started_flag.load(std::memory_order_acquire))
          sched_yield();
        spin_ns(sdelay);
      } else {
        spin_ns(sdelay / 8);
      }
      c.src.request_stop();
    });
    if (stop_phase == 1)
      ++st.stop_during_start;
  }
  unifex::start(*op);  // may already be destroyed when this returns
  started_flag.store(true, std::memory_order_release);
  wait_for(c.result, "C19:cancellable:never-completed", "cancellable operation");
  if (c.mode == M_THREAD)
    completer.wait();
  if (will_stop && stop_phase != 0)
    stopper.wait();
  int res = c.result.load();
  if (res == R_VALUE) {
    ++st.value;
    if (c.mode == M_NEVER)
      violation("C19:cancellable:value-without-completion", "op that never completes naturally produced a value");
    if (c.mode == M_INLINE)
      ++st.inline_complete;
    else
      ++st.completer_won;
  } else if (res == R_DONE) {
    ++st.done;
    if (!will_stop)
      violation("C19:cancellable:done-without-stop", "mode %d", c.mode);
  }
  int sc = c.stop_calls.load();
  if (sc) {
    ++st.stop_hook;
    if (c.stop_before_start_entered.load()) {
      // stop() ran although the nested start() was never entered: only legal in skip-start mode when the stop
      // request preceded start
      if (!StopsEarly)
        violation("C19:cancellable:stop-hook-before-start", "stop() called on an operation whose start() was not entered");
      else
        ++st.stop_skipped_start;
      if (c.start_calls.load() != 0)
        violation("C19:cancellable:stop-instead-of-start-but-started-too", "skip-start mode ran both stop() and start()");
    }
  }
  if (c.completions.load() != 1)
    violation("C19:cancellable:completion-count", "%d completions", c.completions.load());
  if (!fic) {
    // the operation state is destroyed by the starting thread, after start() returned and completion was seen
    c.destroy(c.mem);
    std::free(c.mem);
  }
  ++st.rounds;
}

// ---------------------------------------------------------------------------
// detach_on_cancel
// ---------------------------------------------------------------------------
struct doc_ctl {
  std::atomic<int> child_completions{0};
  std::atomic<int> child_ops_destroyed{0}, child_ops_constructed{0};
  std::atomic<void*> slot{nullptr};
  void (*complete_fn)(void*, int) = nullptr;
  std::atomic<bool> child_saw_stop{false};
  int outcome = R_VALUE;
};

struct doc_child {
  doc_ctl* c;
  template <template <typename...> class Variant, template <typename...> class Tuple>
  using value_types = Variant<Tuple<int>>;
  template <template <typename...> class Variant>
  using error_types = Variant<std::exception_ptr>;
  static constexpr bool sends_done = true;
  template <class R>
  struct op {
    doc_ctl* c;
    R rcvr;
    op(doc_ctl* c_, R&& r) : c(c_), rcvr(std::move(r)) { c->child_ops_constructed.fetch_add(1); }
    op(op&&) = delete;
    ~op() { c->child_ops_destroyed.fetch_add(1, std::memory_order_relaxed); }
    static void thunk(void* p, int oc) {
      op* self = static_cast<op*>(p);
      doc_ctl* ctl = self->c;
      if (unifex::get_stop_token(self->rcvr).stop_requested())
        ctl->child_saw_stop.store(true, std::memory_order_relaxed);
      ctl->child_completions.fetch_add(1, std::memory_order_relaxed);
      if (oc == R_VALUE)
        unifex::set_value(std::move(self->rcvr), 7);
      else if (oc == R_DONE)
        unifex::set_done(std::move(self->rcvr));
      else
        unifex::set_error(std::move(self->rcvr), std::make_exception_ptr(42));
    }
    void start() noexcept {
      c->complete_fn = &thunk;
      c->slot.store(this, std::memory_order_release);
    }
  };
  template <class R>
  op<unifex::remove_cvref_t<R>> connect(R&& r) const {
    return op<unifex::remove_cvref_t<R>>{c, (R&&)r};
  }
};

struct doc_rcv {
  std::atomic<int>* result;
  std::atomic<int>* completions;
  std::atomic<uint64_t>* cseq;
  unifex::inplace_stop_source* src;
  void complete(int r) noexcept {
    std::atomic<int>* res = result;
    cseq->store(now(), std::memory_order_relaxed);
    if (completions->fetch_add(1, std::memory_order_relaxed) != 0)
      violation("C19:detach_on_cancel:receiver-completed-twice", "");
    res->store(r, std::memory_order_release);
  }
  void set_value(int) noexcept { complete(R_VALUE); }
  template <class E>
  void set_error(E&&) noexcept {
    complete(R_ERROR);
  }
  void set_done() noexcept { complete(R_DONE); }
  friend unifex::inplace_stop_token tag_invoke(unifex::tag_t<unifex::get_stop_token>, const doc_rcv& r) noexcept {
    return r.src->get_token();
  }
};

struct dstats {
  long rounds = 0, detached = 0, natural = 0, done_in_request_stop = 0;
};

void detach_round(rng& r, helper& completer, dstats& st) {
  auto c = std::make_unique<doc_ctl>();
  c->outcome = (int[]){R_VALUE, R_VALUE, R_DONE, R_ERROR}[r.below(4)];
  std::atomic<int> result{R_PENDING}, completions{0};
  std::atomic<uint64_t> cseq{0};
  unifex::inplace_stop_source src;
  using op_t = decltype(unifex::connect(unifex::detach_on_cancel(doc_child{c.get()}), doc_rcv{&result, &completions, &cseq, &src}));
  void* mem = std::malloc(sizeof(op_t));
  op_t* op = new (mem) op_t(unifex::connect(unifex::detach_on_cancel(doc_child{c.get()}), doc_rcv{&result, &completions, &cseq, &src}));
  uint32_t cdelay = r.below(10000);
  doc_ctl* cp = c.get();
  int outcome = c->outcome;
  completer.launch([cp, cdelay, outcome] {
    void* p = nullptr;
    while (!(p = cp->slot.load(std::memory_order_acquire)))
      sched_yield();
    spin_ns(cdelay);
    cp->complete_fn(p, outcome);
  });
  unifex::start(*op);
  bool will_stop = r.chance(2, 3);
  uint64_t stop_ret = 0;
  if (will_stop) {
    spin_ns(r.below(10000));
    int before = result.load(std::memory_order_acquire);
    src.request_stop();
    stop_ret = now();
    // done must have been delivered synchronously with the stop request unless the child had already won
    if (before == R_PENDING) {
      int after = result.load(std::memory_order_acquire);
      if (after == R_PENDING) {
        // the child's completion is being delivered right now on the other thread (it won the race)
      } else if (after == R_DONE && cseq.load() < stop_ret) {
        ++st.done_in_request_stop;
      }
    }
  }
  wait_for(result, "C19:detach_on_cancel:never-completed", "detach_on_cancel");
  // the receiver has been completed: the parent operation state can go away; a detached child lives on
  op->~op_t();
  std::free(mem);
  completer.wait();
  int res = result.load();
  if (res == R_DONE && will_stop && cp->child_completions.load() && cseq.load() > stop_ret && outcome != R_DONE)
    violation("C19:detach_on_cancel:done-not-delivered-with-stop",
              "receiver completed with done only after request_stop() had returned although the child produced %d", outcome);
  if (res == R_DONE && outcome != R_DONE)
    ++st.detached;
  else
    ++st.natural;
  if (!will_stop && res != outcome)
    violation("C19:detach_on_cancel:wrong-result", "child outcome %d, receiver got %d without any stop", outcome, res);
  // the child operation state (inside the detached heap block or the parent op) is destroyed exactly once
  if (cp->child_ops_constructed.load() != 1 || cp->child_ops_destroyed.load() != 1)
    violation("C19:detach_on_cancel:child-state-not-freed-exactly-once", "constructed %d destroyed %d",
              cp->child_ops_constructed.load(), cp->child_ops_destroyed.load());
  if (completions.load() != 1)
    violation("C19:detach_on_cancel:completion-count", "%d", completions.load());
  ++st.rounds;
}

// ---------------------------------------------------------------------------
// stop_on_request
// ---------------------------------------------------------------------------
struct sor_rcv {
  std::atomic<int>* result;
  std::atomic<int>* completions;
  unifex::inplace_stop_source* src;
  void complete(int r) noexcept {
    std::atomic<int>* res = result;
    if (completions->fetch_add(1, std::memory_order_relaxed) != 0)
      violation("C19:stop_on_request:receiver-completed-twice", "");
    res->store(r, std::memory_order_release);
  }
  void set_value() noexcept { complete(R_VALUE); }
  template <class E>
  void set_error(E&&) noexcept {
    complete(R_ERROR);
  }
  void set_done() noexcept { complete(R_DONE); }
  friend unifex::inplace_stop_token tag_invoke(unifex::tag_t<unifex::get_stop_token>, const sor_rcv& r) noexcept {
    return r.src->get_token();
  }
};

long sor_round(rng& r, helper& h1, helper& h2) {
  unifex::inplace_stop_source ext1, ext2, rsrc;
  std::atomic<int> result{R_PENDING}, completions{0};
  int n = r.below(3);
  auto run = [&](auto sender) {
    using op_t = decltype(unifex::connect(std::move(sender), sor_rcv{&result, &completions, &rsrc}));
    void* mem = std::malloc(sizeof(op_t));
    op_t* op = new (mem) op_t(unifex::connect(std::move(sender), sor_rcv{&result, &completions, &rsrc}));
    uint32_t d1 = r.below(6000), d2 = r.below(6000);
    int who1 = r.below(n + 1), who2 = r.below(n + 1);
    auto fire = [&](int who) {
      if (who == 0)
        rsrc.request_stop();
      else if (who == 1)
        ext1.request_stop();
      else
        ext2.request_stop();
    };
    bool pre = r.chance(1, 5);
    if (pre)
      fire(who1);
    h1.launch([&, d1, who1, pre] {
      if (!pre) {
        spin_ns(d1);
        fire(who1);
      }
    });
    h2.launch([&, d2, who2] {
      spin_ns(d2);
      fire(who2);
    });
    unifex::start(*op);
    wait_for(result, "C19:stop_on_request:never-completed", "stop_on_request");
    op->~op_t();
    std::free(mem);  // freed while the other requester may still be inside request_stop(): must be a no-op there
    h1.wait();
    h2.wait();
  };
  if (n == 0)
    run(unifex::stop_on_request());
  else if (n == 1)
    run(unifex::stop_on_request(ext1.get_token()));
  else
    run(unifex::stop_on_request(ext1.get_token(), ext2.get_token()));
  if (result.load() != R_DONE)
    violation("C19:stop_on_request:not-done", "completed with %d", result.load());
  if (completions.load() != 1)
    violation("C19:stop_on_request:completion-count", "%d", completions.load());
  return 1;
}

// ---------------------------------------------------------------------------
// canary
// ---------------------------------------------------------------------------
struct payload {
  unifex::canary c;
  int data = 12345;
};
struct kstats {
  long rounds = 0, guard_alive = 0, guard_dead = 0, dtor_blocked = 0;
};

void canary_round(rng& r, helper& h1, kstats& st) {
  payload* p = new payload;
  auto* w = new unifex::canary::watcher(p->c.watch());
  std::atomic<bool> freed{false};
  std::atomic<int> in_guard{0};
  std::atomic<bool> blocked{false};
  uint32_t d1 = r.below(6000), d2 = r.below(6000), hold = r.below(4000);
  bool delete_watcher_first = r.chance(1, 3);
  h1.launch([&, d1] {
    spin_ns(d1);
    if (in_guard.load(std::memory_order_acquire))
      blocked.store(true, std::memory_order_relaxed);
    delete p;  // canary destructor: must not return while a truthy guard exists
    if (in_guard.load(std::memory_order_acquire))
      violation("C19:canary:destructor-returned-while-guard-held", "canary destroyed inside a guarded region");
    freed.store(true, std::memory_order_release);
  });
  spin_ns(d2);
  if (!delete_watcher_first) {
    auto g = w->alive();
    if (g) {
      in_guard.store(1, std::memory_order_release);
      if (freed.load(std::memory_order_acquire))
        violation("C19:canary:guard-truthy-after-canary-died", "alive() returned a truthy guard after the canary's destructor returned");
      volatile int x = p->data;  // ASan: use-after-free if the canary did not block its destructor
      (void)x;
      spin_ns(hold);
      if (freed.load(std::memory_order_acquire))
        violation("C19:canary:destructor-returned-while-guard-held", "canary destroyed inside a guarded region");
      in_guard.store(0, std::memory_order_release);
      ++st.guard_alive;
    } else {
      ++st.guard_dead;
    }
  }
  delete w;  // watcher destructor racing the canary destructor: must not deadlock or touch freed memory
  h1.wait();
  if (blocked.load())
    ++st.dtor_blocked;
  ++st.rounds;
}

// ---------------------------------------------------------------------------
// create_basic_sender: event-handler operations with safe / unsafe callbacks
// ---------------------------------------------------------------------------
// One round = one operation whose handler (a) registers a safe or an unsafe callback in start, or completes inline, or
// requests stop on its own receiver's source from inside the start handler; (b) on the callback event completes with a
// value or requests stop from inside the callback handler; (c) on the stop event completes with done or ignores it.
// The callback is fired from helper thread 1 (a second, late, firing of a *safe* callback follows from the main thread
// after completion and must be a no-op), stop is requested from helper thread 2, start() runs on the main thread.
// Monitors: the receiver is completed exactly once and never from a frame nested inside the operation's own handler; the
// stop handler runs at most once and never after a completion was delivered; the heap operation state is freed inside
// the completion in "fic" rounds, so any later touch is an ASan report.
struct bctl {
  unifex::inplace_stop_source src;
  std::atomic<int> result{R_PENDING};
  std::atomic<int> completions{0}, stop_hooks{0}, callbacks{0};
  std::atomic<int> handler_depth{0};
  std::atomic<uint64_t> handler_thread{0};
  int start_action = 0, cb_action = 0, stop_action = 0;
  std::function<void()> fire;
  bool fire_is_safe = true;
  void* mem = nullptr;
  void (*destroy)(void*) = nullptr;
  bool fic = false;
};
inline uint64_t tid_now() {
  thread_local uint64_t id = (uint64_t)syscall(SYS_gettid);
  return id;
}
struct handler_frame {
  bctl* c;
  explicit handler_frame(bctl* c_) : c(c_) {
    c->handler_thread.store(tid_now(), std::memory_order_relaxed);
    c->handler_depth.fetch_add(1, std::memory_order_acq_rel);
  }
  ~handler_frame() { c->handler_depth.fetch_sub(1, std::memory_order_acq_rel); }
};
struct brcv {
  bctl* c;
  void complete(int r) noexcept {
    bctl* ctl = c;
    if (ctl->completions.fetch_add(1, std::memory_order_acq_rel) != 0) {
      violation("C19:basic:receiver-completed-twice", "start_action %d cb_action %d stop_action %d", ctl->start_action,
                ctl->cb_action, ctl->stop_action);
      return;
    }
    if (ctl->handler_depth.load(std::memory_order_acquire) > 0 && ctl->handler_thread.load() == tid_now())
      violation("C19:basic:receiver-completed-inside-the-operations-own-handler",
                "completion %d delivered from a frame nested in the handler (start_action %d cb_action %d): the outer frame "
                "goes on using the operation state", r, ctl->start_action, ctl->cb_action);
    if (ctl->fic) {
      void* m = ctl->mem;
      ctl->destroy(m);
      std::free(m);
    }
    ctl->result.store(r, std::memory_order_release);
  }
  void set_value(int) noexcept { complete(R_VALUE); }
  template <class E>
  void set_error(E&&) noexcept {
    complete(R_ERROR);
  }
  void set_done() noexcept { complete(R_DONE); }
  friend unifex::inplace_stop_token tag_invoke(unifex::tag_t<unifex::get_stop_token>, const brcv& r) noexcept {
    return r.c->src.get_token();
  }
};
struct bstats {
  long rounds = 0, value = 0, done = 0, stop_hook = 0, nested_stop = 0, late_safe_noop = 0, inline_complete = 0, unsafe = 0;
};

void basic_round(rng& r, helper& h1, helper& h2, bstats& st, int fic_mode) {
  auto c = std::make_unique<bctl>();
  bctl* ctl = c.get();
  ctl->start_action = (int)r.below(5);  // 0,1 safe cb; 2 unsafe cb; 3 inline value; 4 stop requested from the start handler
  ctl->cb_action = (int)r.below(3);     // 0,1 value; 2 stop requested from the callback handler
  ctl->stop_action = r.chance(1, 4) ? 1 : 0;  // 1: ignore the stop request (natural completion only)
  if (ctl->start_action == 4 || ctl->cb_action == 2)
    ctl->stop_action = 0;  // a nested stop request must lead to completion
  if (ctl->start_action == 2)
    ctl->cb_action = 0, ctl->stop_action = 1;  // unsafe callback: fired exactly once, nothing else completes, so that it never arrives late
  bool want_fic = fic_mode != 0 && r.chance(1, 2);
  auto snd = unifex::create_basic_sender<int>([ctl](auto event, auto& op) noexcept {
    if constexpr (event.is_start) {
      handler_frame f(ctl);
      switch (ctl->start_action) {
        case 0:
        case 1: ctl->fire = safe_callback<>(op); break;
        case 2:
          ctl->fire = unsafe_callback<>(op);
          ctl->fire_is_safe = false;
          break;
        case 3: op.set_value(1); break;
        case 4: ctl->src.request_stop(); break;
      }
    } else if constexpr (event.is_callback) {
      handler_frame f(ctl);
      ctl->callbacks.fetch_add(1, std::memory_order_relaxed);
      if (ctl->cb_action == 2)
        ctl->src.request_stop();
      else
        op.set_value(7);
    } else if constexpr (event.is_stop) {
      handler_frame f(ctl);
      if (ctl->stop_hooks.fetch_add(1, std::memory_order_acq_rel) != 0)
        violation("C19:basic:stop-handler-ran-twice", "start_action %d cb_action %d", ctl->start_action, ctl->cb_action);
      if (ctl->completions.load(std::memory_order_acquire) != 0)
        violation("C19:basic:stop-handler-ran-after-completion", "start_action %d cb_action %d", ctl->start_action,
                  ctl->cb_action);
      if (ctl->stop_action == 0)
        op.set_done();
    }
  });
  using op_t = decltype(unifex::connect(std::move(snd), brcv{ctl}));
  void* mem = std::malloc(sizeof(op_t));
  ctl->mem = mem;
  ctl->destroy = [](void* m) { static_cast<op_t*>(m)->~op_t(); };
  op_t* op = new (mem) op_t(unifex::connect(std::move(snd), brcv{ctl}));
  std::atomic<bool> started{false};
  int d1 = (int)r.below(300), d2 = (int)r.below(300);
  bool will_stop = ctl->stop_action == 0 && ctl->start_action != 3 && r.chance(2, 3);
  bool will_fire = ctl->start_action <= 2;
  if (ctl->stop_action == 1 && ctl->start_action <= 1 && !will_fire)
    will_fire = true;
  // free-in-completion: fic=1 only in rounds with a single asynchronous party; fic=2 also when a safe callback races with
  // a stop request (the regime of the recorded finding: a safe callback that already holds its weak reference enters the
  // operation while the other party completes and the receiver destroys it)
  ctl->fic = want_fic && (fic_mode >= 2 || !(will_fire && will_stop));
  if (will_fire)
    h1.launch([&, d1] {
      while (!started.load(std::memory_order_acquire))
        sched_yield();
      for (volatile int i = 0; i < d1; ++i) {
      }
      if (ctl->fire)  // (not set when the stop request preceded start(): the start handler never ran)
        ctl->fire();
    });
  if (will_stop)
    h2.launch([&, d2] {
      // (may run before, during or after start())
      for (volatile int i = 0; i < d2; ++i) {
      }
      ctl->src.request_stop();
    });
  unifex::start(*op);
  started.store(true, std::memory_order_release);
  wait_for(ctl->result, "C19:basic:never-completed", "create_basic_sender operation");
  if (will_fire)
    h1.wait();
  if (will_stop)
    h2.wait();
  // a late firing of a safe callback is a no-op
  if (will_fire && ctl->fire_is_safe && ctl->fire) {
    int before = ctl->callbacks.load();
    ctl->fire();
    if (ctl->callbacks.load() != before || ctl->completions.load() != 1)
      violation("C19:basic:late-safe-callback-was-not-a-no-op", "callbacks %d->%d completions %d", before,
                ctl->callbacks.load(), ctl->completions.load());
    ++st.late_safe_noop;
  }
  ctl->fire = nullptr;
  if (!ctl->fic) {
    op->~op_t();
    std::free(mem);
  }
  if (ctl->completions.load() != 1)
    violation("C19:basic:receiver-completed-twice", "completions=%d", ctl->completions.load());
  ++st.rounds;
  int res = ctl->result.load();
  st.value += res == R_VALUE;
  st.done += res == R_DONE;
  st.stop_hook += ctl->stop_hooks.load();
  st.nested_stop += (ctl->start_action == 4 || (ctl->cb_action == 2 && ctl->callbacks.load() > 0));
  st.inline_complete += ctl->start_action == 3;
  st.unsafe += ctl->start_action == 2;
}

}  // namespace

int main(int argc, char** argv) {
  args a = parse_args(argc, argv);
  rng r(a.seed);
  helper h1, h2;
  if (a.mode == "cancellable") {
    cstats st, st2;
    for (long i = 0; i < a.iters; ++i) {
      cancellable_round<false>(r, h1, h2, st, a.geti("fic", 1) != 0);
      cancellable_round<true>(r, h1, h2, st2, a.geti("fic", 1) != 0);
    }
    auto dump = [](const char* n, const cstats& s) {
      char k[128];
#define ST(name, v) \
  snprintf(k, sizeof k, "%s_%s", n, name); \
  stat_add(k, v)
      ST("rounds", s.rounds);
      ST("outcome_value", s.value);
      ST("outcome_done", s.done);
      ST("outcome_stop_hook_ran", s.stop_hook);
      ST("outcome_stop_instead_of_start", s.stop_skipped_start);
      ST("outcome_completer_thread_won", s.completer_won);
      ST("outcome_inline_completion", s.inline_complete);
      ST("stop_before_start", s.stop_before_start);
      ST("stop_concurrent_with_start", s.stop_during_start);
#undef ST
    };
    dump("cancellable", st);
    dump("cancellable_stops_early", st2);
    stat_add("rounds_total", st.rounds + st2.rounds);
  } else if (a.mode == "basic") {
    bstats st;
    for (long i = 0; i < a.iters; ++i)
      basic_round(r, h1, h2, st, (int)a.geti("fic", 1));
    stat_add("basic_rounds", st.rounds);
    stat_add("basic_outcome_value", st.value);
    stat_add("basic_outcome_done", st.done);
    stat_add("basic_stop_handler_ran", st.stop_hook);
    stat_add("basic_stop_requested_from_own_handler", st.nested_stop);
    stat_add("basic_late_safe_callback_noop", st.late_safe_noop);
    stat_add("basic_inline_completion", st.inline_complete);
    stat_add("basic_unsafe_callback_rounds", st.unsafe);
    stat_add("rounds_total", st.rounds);
  } else if (a.mode == "detach") {
    dstats st;
    for (long i = 0; i < a.iters; ++i)
      detach_round(r, h1, st);
    stat_add("detach_rounds", st.rounds);
    stat_add("detach_outcome_detached_done", st.detached);
    stat_add("detach_outcome_natural", st.natural);
    stat_add("detach_done_delivered_inside_request_stop", st.done_in_request_stop);
    stat_add("rounds_total", st.rounds);
  } else if (a.mode == "sor") {
    long n = 0;
    for (long i = 0; i < a.iters; ++i)
      n += sor_round(r, h1, h2);
    stat_add("stop_on_request_rounds", n);
    stat_add("rounds_total", n);
  } else if (a.mode == "canary") {
    kstats st;
    for (long i = 0; i < a.iters; ++i)
      canary_round(r, h1, st);
    stat_add("canary_rounds", st.rounds);
    stat_add("canary_outcome_guard_alive", st.guard_alive);
    stat_add("canary_outcome_guard_dead", st.guard_dead);
    stat_add("canary_outcome_destructor_started_inside_guard", st.dtor_blocked);
    stat_add("rounds_total", st.rounds);
  } else {
    fprintf(stderr, "unknown mode\n");
    return 2;
  }
  report();
  return 0;
}
