// C08 (scope join) and C09 (futures) under multi-threaded stress.
// One history = one heap-allocated scope (v0, v1 or v2), worker threads admitting work (spawn / nest /
// attach / spawn_future / discard), completer threads finishing the manual leaves, a stopper and 1-2 joiners.
#include <vf/mt.hpp>

#include <unifex/inline_scheduler.hpp>
#include <unifex/inplace_stop_token.hpp>
#include <unifex/manual_lifetime.hpp>
#include <unifex/nest.hpp>
#include <unifex/single_thread_context.hpp>
#include <unifex/spawn_detached.hpp>
#include <unifex/spawn_future.hpp>
#include <unifex/sync_wait.hpp>
#include <unifex/then.hpp>
#include <unifex/v0/async_scope.hpp>
#include <unifex/v1/async_scope.hpp>
#include <unifex/v2/async_scope.hpp>
#include <unifex/with_query_value.hpp>

#include <algorithm>
#include <deque>
#include <memory>
#include <optional>

using namespace vf::mt;

namespace {

std::atomic<uint64_t> g_seq{1};
inline uint64_t now() {
  return g_seq.fetch_add(1, std::memory_order_relaxed);
}

// tracked result value ------------------------------------------------------------
struct tval {
  static std::atomic<long> constructed, destroyed;
  int id;
  explicit tval(int i) noexcept : id(i) { constructed.fetch_add(1, std::memory_order_relaxed); }
  tval(const tval& o) noexcept : id(o.id) { constructed.fetch_add(1, std::memory_order_relaxed); }
  tval(tval&& o) noexcept : id(o.id) { constructed.fetch_add(1, std::memory_order_relaxed); }
  tval& operator=(const tval&) = default;
  ~tval() { destroyed.fetch_add(1, std::memory_order_relaxed); }
};
std::atomic<long> tval::constructed{0}, tval::destroyed{0};

struct terr {
  int id;
};

enum { OC_VALUE = 0, OC_ERROR = 1, OC_DONE = 2 };
enum { ST_CREATED = 0, ST_STARTED = 1, ST_COMPLETED = 2 };

struct leafctl {
  int id = 0;
  int outcome = OC_VALUE;
  bool reacts = true;  // completes with done from the stop callback
  std::atomic<int> state{ST_CREATED};
  std::atomic<bool> claimed{false};
  std::atomic<uint64_t> attempt_seq{0}, start_seq{0}, cseq{0}, claim_seq{0};
  std::atomic<uint64_t> delivered_seq{0};  // taken after set_value/set_error/set_done returned to the leaf
  std::atomic<int> completions{0};
  std::atomic<int> completed_with{-1};
  std::atomic<bool> saw_stop{false};
  // set by the op at start; valid until completion
  void* op = nullptr;
  void (*complete_fn)(void* op, int outcome) = nullptr;
  bool (*token_stopped_fn)(void* op) = nullptr;
};
using ctl_ptr = std::shared_ptr<leafctl>;

struct registry {
  std::mutex mu;
  std::deque<ctl_ptr> pending;
  std::vector<ctl_ptr> all;
  void started(ctl_ptr c) {
    std::lock_guard<std::mutex> lk(mu);
    pending.push_back(std::move(c));
  }
  ctl_ptr take(rng& r) {
    std::lock_guard<std::mutex> lk(mu);
    if (pending.empty())
      return nullptr;
    size_t i = r.below((uint32_t)pending.size());
    ctl_ptr c = pending[i];
    pending.erase(pending.begin() + i);
    return c;
  }
};
registry* REG = nullptr;

struct mleaf {
  ctl_ptr c;
  template <template <typename...> class Variant, template <typename...> class Tuple>
  using value_types = Variant<Tuple<tval>>;
  template <template <typename...> class Variant>
  using error_types = Variant<std::exception_ptr>;
  static constexpr bool sends_done = true;

  template <class R>
  struct op {
    using tok_t = unifex::stop_token_type_t<R&>;
    struct cb {
      op* self;
      void operator()() noexcept { self->on_stop(); }
    };
    R rcvr;
    ctl_ptr c;
    unifex::manual_lifetime<typename tok_t::template callback_type<cb>> stopcb;
    bool has_cb = false;

    template <class R2>
    op(ctl_ptr c_, R2&& r) : rcvr((R2&&)r), c(std::move(c_)) {}
    op(op&&) = delete;
    ~op() {
      int s = c->state.load(std::memory_order_relaxed);
      if (s == ST_STARTED)
        violation("C02:scope:leaf-destroyed-while-running", "leaf %d", c->id);
    }

    static void complete_thunk(void* p, int oc) { static_cast<op*>(p)->finish(oc); }
    static bool tok_thunk(void* p) {
      return unifex::get_stop_token(static_cast<op*>(p)->rcvr).stop_requested();
    }

    void start() & noexcept {
      c->op = this;
      c->complete_fn = &complete_thunk;
      c->token_stopped_fn = &tok_thunk;
      c->start_seq.store(now(), std::memory_order_relaxed);
      c->state.store(ST_STARTED, std::memory_order_release);
      ctl_ptr keep = c;
      if constexpr (!unifex::is_stop_never_possible_v<tok_t>) {
        has_cb = true;
        stopcb.construct(unifex::get_stop_token(rcvr), cb{this});
        // the callback may already have completed (and destroyed) *this
      }
      // publish for the completer threads (claim arbitration makes a late publish harmless)
      REG->started(std::move(keep));
    }

    void on_stop() noexcept {
      c->saw_stop.store(true, std::memory_order_relaxed);
      if (c->reacts && !c->claimed.exchange(true, std::memory_order_acq_rel))
        finish(OC_DONE);
    }

    // called by exactly one party (claim winner)
    void finish(int oc) noexcept {
      ctl_ptr k = c;
      if (has_cb)
        stopcb.destruct();  // waits for a concurrently running callback
      k->cseq.store(now(), std::memory_order_relaxed);
      k->completed_with.store(oc, std::memory_order_relaxed);
      if (k->completions.fetch_add(1, std::memory_order_relaxed) != 0)
        violation("C01:scope:leaf-completed-twice", "leaf %d", k->id);
      k->state.store(ST_COMPLETED, std::memory_order_release);
      // *this may be destroyed by the receiver
      if (oc == OC_VALUE)
        unifex::set_value(std::move(rcvr), tval{k->id});
      else if (oc == OC_ERROR)
        unifex::set_error(std::move(rcvr), std::make_exception_ptr(terr{k->id}));
      else
        unifex::set_done(std::move(rcvr));
      // only now has the library certainly recorded the result (a future started before this point may still
      // legitimately win the race for "cancelled before the result was available")
      k->delivered_seq.store(now(), std::memory_order_release);
    }
  };

  template <class R>
  op<unifex::remove_cvref_t<R>> connect(R&& r) const& {
    return op<unifex::remove_cvref_t<R>>{c, (R&&)r};
  }
};

ctl_ptr new_leaf(rng& r, int& idgen, bool allow_error) {
  auto c = std::make_shared<leafctl>();
  c->id = ++idgen;
  uint32_t x = r.below(10);
  c->outcome = x < 6 ? OC_VALUE : (x < 8 ? OC_DONE : (allow_error ? OC_ERROR : OC_VALUE));
  c->reacts = r.chance(2, 3);
  {
    std::lock_guard<std::mutex> lk(REG->mu);
    REG->all.push_back(c);
  }
  return c;
}

// receiver for joins / manually driven senders ---------------------------------------
struct wstate {
  std::atomic<int> result{0};  // 1 value 2 done 3 error
  std::atomic<int> signals{0};
  std::atomic<uint64_t> cseq{0};
  int value_id = -1, error_id = -1;
  unifex::inplace_stop_source src;
  void complete(int r, const char* what) {
    cseq.store(now(), std::memory_order_relaxed);
    if (signals.fetch_add(1, std::memory_order_relaxed) != 0)
      violation("C08:scope:completed-twice", "%s completed twice", what);
    result.store(r, std::memory_order_release);
  }
  bool wait(const char* key, const char* what, double secs = 30) {
    auto t0 = std::chrono::steady_clock::now();
    int spins = 0;
    while (result.load(std::memory_order_acquire) == 0) {
      if (++spins > 100) {
        sched_yield();
        spins = 0;
        if (std::chrono::duration<double>(std::chrono::steady_clock::now() - t0).count() > secs) {
          violation(key, "%s still pending after %.0fs at quiescence", what, secs);
          return false;
        }
      }
    }
    return true;
  }
};

struct wrcvr {
  wstate* st;
  const char* what;
  void set_value() noexcept { st->complete(1, what); }
  void set_value(tval&& v) noexcept {
    st->value_id = v.id;
    st->complete(1, what);
  }
  void set_error(std::exception_ptr e) noexcept {
    try {
      std::rethrow_exception(e);
    } catch (const terr& t) {
      st->error_id = t.id;
    } catch (...) {
      st->error_id = -2;
    }
    st->complete(3, what);
  }
  void set_done() noexcept { st->complete(2, what); }
  friend unifex::inplace_stop_token tag_invoke(unifex::tag_t<unifex::get_stop_token>, const wrcvr& r) noexcept {
    return r.st->src.get_token();
  }
  friend unifex::inline_scheduler tag_invoke(unifex::tag_t<unifex::get_scheduler>, const wrcvr&) noexcept {
    return {};
  }
};

struct stats_t {
  long histories = 0, admitted = 0, rejected_after_close = 0, discarded = 0, joins = 0, stop_reached = 0,
       fut_value = 0, fut_error = 0, fut_done = 0, fut_dropped = 0, fut_cancelled_done = 0, fut_cancel_lost = 0,
       admit_raced_close = 0, result_before_await = 0;
};

template <class Scope>
struct kind;
template <>
struct kind<unifex::v0::async_scope> {
  static constexpr int k = 0;
};
template <>
struct kind<unifex::v1::async_scope> {
  static constexpr int k = 1;
};
template <>
struct kind<unifex::v2::async_scope> {
  static constexpr int k = 2;
};

struct join_rec {
  uint64_t start_call = 0, start_ret = 0, done = 0;
};

// checks the result of awaiting a future against what its leaf did
template <class Fut>
void await_future(Fut&& fut, const ctl_ptr& c, rng& r, stats_t& st, bool scope_maybe_closed,
                  const std::atomic<uint64_t>& scope_stop_call,
                  std::vector<std::pair<ctl_ptr, uint64_t>>& cancelled_rec) {
  wstate ws;
  bool cancel = r.chance(1, 4);
  const uint64_t delivered_before = c->delivered_seq.load(std::memory_order_acquire);
  bool result_ready_before = delivered_before != 0;
  bool cancel_first = cancel && r.chance(1, 3);
  if (cancel_first)
    ws.src.request_stop();
  auto op = unifex::connect(std::move(fut), wrcvr{&ws, "future"});
  uint64_t start_call = now();
  unifex::start(op);
  if (cancel && !cancel_first) {
    spin_ns(r.below(20000));
    ws.src.request_stop();
  }
  if (!ws.wait("C09:future:never-completed", "awaited future"))
    return;
  int res = ws.result.load();
  int leaf_state = c->state.load(std::memory_order_acquire);
  int leaf_oc = c->completed_with.load(std::memory_order_relaxed);
  if (res == 1) {
    ++st.fut_value;
    if (ws.value_id != c->id)
      violation("C09:future:wrong-value", "future delivered value id %d, leaf %d produced %d", ws.value_id, c->id, c->id);
    if (leaf_state != ST_COMPLETED || leaf_oc != OC_VALUE)
      violation("C09:future:value-without-leaf-value", "future completed with value but leaf %d state=%d outcome=%d", c->id,
                leaf_state, leaf_oc);
    if (cancel)
      ++st.fut_cancel_lost;
  } else if (res == 3) {
    ++st.fut_error;
    if (ws.error_id != c->id || leaf_oc != OC_ERROR)
      violation("C09:future:wrong-error", "future delivered error id %d, leaf %d outcome %d", ws.error_id, c->id, leaf_oc);
  } else {
    ++st.fut_done;
    // done is legitimate iff: leaf completed with done, or leaf never started (scope closed), or the future was
    // cancelled before the result was available
    bool leaf_done = leaf_state == ST_COMPLETED && leaf_oc == OC_DONE;
    bool never_started = c->start_seq.load() == 0;
    // (v1: a stop request on the whole scope also cancels its futures)
    uint64_t ssc = scope_stop_call.load(std::memory_order_acquire);
    bool scope_stopped_first = ssc != 0 && ssc < ws.cseq.load();
    if (!leaf_done && !never_started && !cancel && !scope_stopped_first)
      violation("C09:future:done-although-result-produced",
                "future completed with done; leaf %d state=%d outcome=%d, no cancellation", c->id, leaf_state, leaf_oc);
    if (never_started && !scope_maybe_closed)
      violation("C09:future:done-without-running-in-open-scope", "leaf %d never started although the scope was open", c->id);
    if (cancel && !leaf_done && !never_started) {
      ++st.fut_cancelled_done;
      // a cancelled future must have requested stop on the spawned operation before completing (judged at the end of
      // the history, like dropped futures)
      cancelled_rec.emplace_back(c, ws.cseq.load());
      // a result already available when the future was started must be delivered even if stop was requested
      // (v1: if the whole scope was told to stop first, its attach wrapper legitimately turns the future into done)
      if (!scope_stopped_first && result_ready_before && (leaf_oc == OC_VALUE || leaf_oc == OC_ERROR) &&
          delivered_before < start_call)
        violation("C09:future:available-result-dropped-on-cancel",
                  "leaf %d had completed (outcome %d) before the future was started, yet the future completed with done",
                  c->id, leaf_oc);
    }
  }
  if (result_ready_before)
    ++st.result_before_await;
}

template <class Scope>
void run_history(rng& r, stats_t& st, int W, int C) {
  constexpr int K = kind<Scope>::k;
  registry reg;
  REG = &reg;
  Scope* scope = new Scope;
  std::atomic<long> stop_reached{0};
  // after request_stop()/cleanup() has returned, every leaf that is still running must see a stop request on the
  // token it was given; only leaves that ignore stop are inspected (nobody can complete them while we hold the lock)
  auto check_stop_visible = [&] {
    std::lock_guard<std::mutex> lk(reg.mu);
    for (auto& c : reg.pending) {
      if (!c->reacts && c->state.load(std::memory_order_acquire) == ST_STARTED && !c->claimed.load()) {
        // another stop request on the same operation (its own receiver's token) may be mid-flight on another
        // thread, in which case the scope's request returns first: allow a bounded delay
        bool seen = c->token_stopped_fn(c->op);
        for (int spin = 0; !seen && spin < 20000; ++spin) {
          spin_ns(100000);
          seen = c->token_stopped_fn(c->op);
        }
        if (!seen)
          violation("C08:scope:running-work-not-told-to-stop", "leaf %d still running after request_stop()/cleanup() "
                    "returned and its token is not stopped (scope v%d)", c->id, K);
        else
          stop_reached.fetch_add(1, std::memory_order_relaxed);
      }
    }
  };
  std::atomic<bool> workers_done{false}, all_done{false};
  std::atomic<int> workers_left{W};
  std::atomic<int> users_left{W + 1};   // workers + stopper: threads that call into the scope
  std::atomic<int> joiners_left{0};
  std::atomic<uint64_t> close_call{0}, close_ret{0};  // first join start / request_stop
  std::atomic<uint64_t> stop_ret{0};
  std::atomic<uint64_t> stop_call{0};  // first scope-wide stop request (request_stop / cleanup)
  int njoin = (K == 0) ? 1 : 1 + r.below(2);
  std::vector<join_rec> joins(njoin);
  joiners_left.store(njoin);
  std::vector<wstate> jstates(njoin);
  barrier bar(W + C + njoin + 1);
  std::vector<std::thread> ths;
  uint64_t base = r.next();
  int idgen_base = 0;
  std::vector<stats_t> wst(W);
  std::vector<std::vector<std::pair<ctl_ptr, uint64_t>>> dropped(W), cancelled(W);

  for (int w = 0; w < W; ++w) {
    ths.emplace_back([&, w] {
      rng lr(base + w * 31);
      int idgen = (w + 1) * 100000 + idgen_base;
      stats_t& s = wst[w];
      bar.wait();
      int A = 2 + lr.below(5);
      for (int a = 0; a < A; ++a) {
        if (lr.chance(1, 3))
          spin_ns(lr.below(15000));
        ctl_ptr c = new_leaf(lr, idgen, /*allow_error=*/false);
        uint32_t how = lr.below(6);
        c->attempt_seq.store(now(), std::memory_order_relaxed);
        if constexpr (K == 0) {
          scope->spawn(unifex::then(mleaf{c}, [](tval&&) noexcept {}));
        } else if constexpr (K == 1) {
          if (how == 0) {
            scope->detached_spawn(unifex::then(mleaf{c}, [](tval&&) noexcept {}));
          } else if (how <= 2) {
            // attach -> run with our own receiver, or discard
            auto snd = scope->attach(mleaf{c});
            if (lr.chance(1, 4)) {
              ++s.discarded;  // sender destroyed without being started
            } else {
              wstate ws;
              auto op = unifex::connect(std::move(snd), wrcvr{&ws, "attached sender"});
              unifex::start(op);
              if (lr.chance(1, 5))
                ws.src.request_stop();
              ws.wait("C08:scope:attached-never-completed", "attached sender");
            }
          } else {
            // error outcomes are fine for futures
            if (lr.chance(1, 5))
              c->outcome = OC_ERROR;
            auto fut = scope->spawn(mleaf{c});
            if (lr.chance(1, 3)) {
              ++s.fut_dropped;  // dropped without awaiting: must request stop on the leaf (checked below)
              {
                auto f2 = std::move(fut);
              }
              dropped[w].emplace_back(c, now());
            } else {
              if (lr.chance(1, 2))
                spin_ns(lr.below(20000));
              await_future(std::move(fut), c, lr, s, true, stop_call, cancelled[w]);
            }
          }
        } else {
          if (how == 0) {
            unifex::spawn_detached(unifex::then(mleaf{c}, [](tval&&) noexcept {}), *scope);
          } else if (how <= 2) {
            auto snd = unifex::nest(mleaf{c}, *scope);
            if (lr.chance(1, 4)) {
              ++s.discarded;
            } else {
              wstate ws;
              auto op = unifex::connect(std::move(snd), wrcvr{&ws, "nest sender"});
              unifex::start(op);
              if (lr.chance(1, 5))
                ws.src.request_stop();
              ws.wait("C08:scope:nested-never-completed", "nest sender");
            }
          } else {
            if (lr.chance(1, 5))
              c->outcome = OC_ERROR;
            auto fut = unifex::spawn_future(mleaf{c}, *scope);
            if (lr.chance(1, 3)) {
              ++s.fut_dropped;
              {
                auto f2 = std::move(fut);
              }
              dropped[w].emplace_back(c, now());
            } else {
              if (lr.chance(1, 2))
                spin_ns(lr.below(20000));
              await_future(std::move(fut), c, lr, s, true, stop_call, cancelled[w]);
            }
          }
        }
      }
      if (workers_left.fetch_sub(1, std::memory_order_acq_rel) == 1)
        workers_done.store(true, std::memory_order_release);
      users_left.fetch_sub(1, std::memory_order_acq_rel);
    });
  }
  for (int ci = 0; ci < C; ++ci) {
    ths.emplace_back([&, ci] {
      rng lr(base + 7000 + ci);
      bar.wait();
      while (true) {
        ctl_ptr c = reg.take(lr);
        if (!c) {
          if (all_done.load(std::memory_order_acquire))
            break;
          sched_yield();
          continue;
        }
        if (lr.chance(1, 2))
          spin_ns(lr.below(15000));
        if (!c->claimed.exchange(true, std::memory_order_acq_rel)) {
          c->claim_seq.store(now(), std::memory_order_relaxed);  // before the leaf deregisters its stop callback
          c->complete_fn(c->op, c->outcome);
        }
      }
    });
  }
  // stopper (v0/v1 have request_stop)
  ths.emplace_back([&] {
    rng lr(base + 9000);
    bar.wait();
    if constexpr (K != 2) {
      if (lr.chance(1, 3)) {
        spin_ns(lr.below(40000));
        uint64_t c = now();
        uint64_t e = 0;
        close_call.compare_exchange_strong(e, c, std::memory_order_relaxed);
        e = 0;
        stop_call.compare_exchange_strong(e, c, std::memory_order_acq_rel);
        scope->request_stop();
        uint64_t rt = now();
        check_stop_visible();
        stop_ret.store(rt, std::memory_order_release);
        e = 0;
        close_ret.compare_exchange_strong(e, rt, std::memory_order_relaxed);
      }
    }
    users_left.fetch_sub(1, std::memory_order_acq_rel);
  });
  bool used_cleanup = false;
  for (int j = 0; j < njoin; ++j) {
    ths.emplace_back([&, j] {
      rng lr(base + 8000 + j);
      bar.wait();
      spin_ns(lr.below(60000));
      auto go = [&](auto snd, bool is_cleanup) {
        auto op = unifex::connect(std::move(snd), wrcvr{&jstates[j], "scope join"});
        joins[j].start_call = now();
        uint64_t e = 0;
        close_call.compare_exchange_strong(e, joins[j].start_call, std::memory_order_relaxed);
        unifex::start(op);
        joins[j].start_ret = now();
        if (is_cleanup)
          check_stop_visible();
        e = 0;
        close_ret.compare_exchange_strong(e, joins[j].start_ret, std::memory_order_relaxed);
        jstates[j].wait("C08:scope:join-never-completed", "scope join", 60);
        joins[j].done = jstates[j].cseq.load();
      };
      if constexpr (K == 2) {
        go(scope->join(), false);
      } else {
        if (lr.chance(1, 2)) {
          if (K == 1 || K == 0) {
            uint64_t e2 = 0;
            stop_call.compare_exchange_strong(e2, now(), std::memory_order_acq_rel);
            go(scope->cleanup(), true);
            if (stop_ret.load() == 0)
              stop_ret.store(joins[j].start_ret, std::memory_order_release);
          }
        } else {
          go(scope->complete(), false);
        }
      }
      (void)used_cleanup;
      // the last joiner destroys the scope as soon as nobody calls into it any more: the thread that
      // delivered the join's completion may still be inside the scope's completion path (ASan)
      if (joiners_left.fetch_sub(1, std::memory_order_acq_rel) == 1) {
        while (users_left.load(std::memory_order_acquire) != 0)
          sched_yield();
        delete scope;
      }
    });
  }
  // wait for workers and joiners (threads W+C+1 .. end are joiners); completers stop when everything is done
  for (int i = 0; i < W; ++i)
    ths[i].join();
  for (size_t i = W + C; i < ths.size(); ++i)
    ths[i].join();
  all_done.store(true, std::memory_order_release);
  for (int i = W; i < W + C; ++i)
    ths[i].join();
  // anything still pending now was admitted but its leaf ignored stop; complete it ourselves
  // (only possible if a join did not wait for it, which is checked next)
  {
    rng lr(base + 1);
    while (ctl_ptr c = reg.take(lr))
      if (!c->claimed.exchange(true))
        c->complete_fn(c->op, c->outcome);
  }
  // oracle ------------------------------------------------------------------------
  uint64_t first_close_ret = close_ret.load();
  for (auto& c : reg.all) {
    int s = c->state.load(std::memory_order_acquire);
    if (s == ST_CREATED) {
      if (first_close_ret && c->attempt_seq.load() > first_close_ret)
        ++st.rejected_after_close;
      continue;
    }
    ++st.admitted;
    if (s != ST_COMPLETED) {
      violation("C08:scope:admitted-work-never-completed", "leaf %d (scope v%d)", c->id, K);
      continue;
    }
    // admission attempts that began after a close had returned must not run
    if (first_close_ret && c->attempt_seq.load() > first_close_ret)
      violation("C08:scope:work-started-after-close", "leaf %d was started although its admission began (seq %llu) "
                "after the scope had been closed (seq %llu) (scope v%d)", c->id,
                (unsigned long long)c->attempt_seq.load(), (unsigned long long)first_close_ret, K);
    if (close_call.load() && c->attempt_seq.load() < first_close_ret && c->start_seq.load() > close_call.load())
      ++st.admit_raced_close;
    for (int j = 0; j < njoin; ++j) {
      if (joins[j].done && c->cseq.load() > joins[j].done)
        violation("C08:scope:join-completed-before-nested-work", "join %d completed (seq %llu) before leaf %d began to "
                  "complete (seq %llu) (scope v%d)", j, (unsigned long long)joins[j].done, c->id,
                  (unsigned long long)c->cseq.load(), K);
    }
    // dropped futures / closed scope: leaf must have been told to stop (observed by its callback) -- only judged
    // when it did not complete naturally first
  }
  for (int j = 0; j < njoin; ++j) {
    if (jstates[j].result.load() == 0)
      violation("C08:scope:join-never-completed", "join %d (scope v%d)", j, K);
    ++st.joins;
  }
  // a future dropped while its operation was still running must have requested stop on it.
  // (v0/v1: when a scope-wide stop request is in flight as well, the attach wrapper lets only the first of the two
  //  requests forward the stop to the child; the second returns at once.  A drop that returns while the scope's own
  //  request has not reached the child yet is therefore legitimate - the stop *has* been requested - and the rule is
  //  not applied once a scope-wide stop was initiated before the leaf was claimed.)
  const uint64_t scope_stop_at = stop_call.load(std::memory_order_acquire);
  auto scope_stop_in_flight = [&](const ctl_ptr& c) {
    return scope_stop_at != 0 && scope_stop_at < c->claim_seq.load();
  };
  for (auto& dv : dropped)
    for (auto& [c, dseq] : dv) {
      if (scope_stop_in_flight(c))
        continue;
      // claim_seq is taken by the completer before the leaf deregisters its stop callback: if it is later than
      // the drop's return, the callback was registered during the whole drop
      if (c->state.load() == ST_COMPLETED && c->start_seq.load() && c->claim_seq.load() > dseq && !c->saw_stop.load())
        violation("C09:future:dropped-future-did-not-request-stop", "leaf %d was still running when its future was "
                  "dropped (drop returned at %llu, completer claimed the leaf at %llu) and never saw a stop request", c->id,
                  (unsigned long long)dseq, (unsigned long long)c->claim_seq.load());
    }
  for (auto& cv : cancelled)
    for (auto& [c, fseq] : cv) {
      if (scope_stop_in_flight(c))
        continue;
      if (c->state.load() == ST_COMPLETED && c->start_seq.load() && c->claim_seq.load() > fseq && !c->saw_stop.load())
        violation("C09:future:cancelled-future-did-not-request-stop", "leaf %d was still running when its cancelled future "
                  "completed with done (at %llu, completer claimed the leaf at %llu) and never saw a stop request", c->id,
                  (unsigned long long)fseq, (unsigned long long)c->claim_seq.load());
    }
  for (auto& s : wst) {
    st.discarded += s.discarded;
    st.fut_value += s.fut_value;
    st.fut_error += s.fut_error;
    st.fut_done += s.fut_done;
    st.fut_dropped += s.fut_dropped;
    st.fut_cancelled_done += s.fut_cancelled_done;
    st.fut_cancel_lost += s.fut_cancel_lost;
    st.result_before_await += s.result_before_await;
  }
  ++st.histories;
  st.stop_reached += stop_reached.load();
  REG = nullptr;
}

template <class Scope>
void run(const args& a, const char* name) {
  rng r(a.seed);
  stats_t st;
  for (long i = 0; i < a.iters; ++i)
    run_history<Scope>(r, st, 1 + r.below((uint32_t)a.geti("maxW", 3)), 1 + r.below(2));
  char k[128];
#define ST(n, v) \
  snprintf(k, sizeof k, "%s_%s", name, n); \
  stat_add(k, v)
  ST("histories", st.histories);
  ST("admitted", st.admitted);
  ST("rejected_after_close", st.rejected_after_close);
  ST("admission_raced_close", st.admit_raced_close);
  ST("discarded_senders", st.discarded);
  ST("joins", st.joins);
  ST("running_leaves_told_to_stop", st.stop_reached);
  ST("future_value", st.fut_value);
  ST("future_error", st.fut_error);
  ST("future_done", st.fut_done);
  ST("future_dropped", st.fut_dropped);
  ST("future_cancelled_done", st.fut_cancelled_done);
  ST("future_cancel_lost_race", st.fut_cancel_lost);
  ST("future_result_ready_before_await", st.result_before_await);
#undef ST
}

}  // namespace

int main(int argc, char** argv) {
  args a = parse_args(argc, argv);
  if (a.mode == "v0")
    run<unifex::v0::async_scope>(a, "v0");
  else if (a.mode == "v1")
    run<unifex::v1::async_scope>(a, "v1");
  else if (a.mode == "v2")
    run<unifex::v2::async_scope>(a, "v2");
  else {
    fprintf(stderr, "unknown mode\n");
    return 2;
  }
  if (tval::constructed.load() != tval::destroyed.load())
    violation("C09:future:result-not-destroyed-exactly-once", "tracked results constructed=%ld destroyed=%ld",
              tval::constructed.load(), tval::destroyed.load());
  stat_add("tracked_results_constructed", tval::constructed.load());
  report();
  return 0;
}
