// C07: timers never fire early, fire in due-time order, cancel promptly, complete once; time_point arithmetic.
#include <vf/mt.hpp>

#include <unifex/inplace_stop_token.hpp>
#include <unifex/linux/io_epoll_context.hpp>
#include <unifex/linux/io_uring_context.hpp>
#include <unifex/linux/monotonic_clock.hpp>
#include <unifex/manual_lifetime.hpp>
#include <unifex/scheduler_concepts.hpp>
#include <unifex/thread_unsafe_event_loop.hpp>
#include <unifex/timed_single_thread_context.hpp>

#include <algorithm>
#include <deque>
#include <memory>
#include <optional>

using namespace vf::mt;
using namespace std::chrono_literals;

namespace {

std::atomic<uint64_t> g_seq{1};
inline uint64_t seqnow() {
  return g_seq.fetch_add(1, std::memory_order_relaxed);
}

constexpr int R_PENDING = 0, R_VALUE = 1, R_DONE = 2, R_ERROR = 3;

// the scheduler's own clock: io contexts expose now(); the two std::chrono based contexts use steady_clock
template <class Sched>
auto clock_now(Sched& s) {
  if constexpr (requires { s.now(); })
    return s.now();
  else
    return std::chrono::steady_clock::now();
}
template <class Sched>
using tp_t = decltype(clock_now(std::declval<Sched&>()));
// io_uring's scheduler has no schedule_after: express it with schedule_at(now + d)
template <class Sched, class D>
auto sched_after(Sched& s, D d) {
  if constexpr (requires { s.schedule_after(d); })
    return unifex::schedule_after(s, d);
  else
    return unifex::schedule_at(s, s.now() + d);
}

template <class Sched>
struct titem {
  std::atomic<int> signals{0};
  std::atomic<int> result{R_PENDING};
  std::atomic<uint64_t> cseq{0};
  tp_t<Sched> due{};
  tp_t<Sched> completed_at{};
  int index = 0;
  unifex::inplace_stop_source src;
  std::atomic<bool>* gate = nullptr;  // when set: spin inside set_value until *gate is true (holds the context)
};

template <class Sched>
struct trcv {
  titem<Sched>* it;
  Sched sched;
  void complete(int r) noexcept {
    titem<Sched>* i = it;
    i->completed_at = clock_now(sched);  // read after the library decided to fire
    if (i->signals.fetch_add(1, std::memory_order_relaxed) != 0)
      violation("C07:timer:completed-twice", "item %d", i->index);
    i->cseq.store(seqnow(), std::memory_order_relaxed);
    if (std::atomic<bool>* g = i->gate) {
      while (!g->load(std::memory_order_acquire))
        sched_yield();
    }
    i->result.store(r, std::memory_order_release);
  }
  void set_value() noexcept { complete(R_VALUE); }
  template <class E>
  void set_error(E&&) noexcept {
    complete(R_ERROR);
  }
  void set_done() noexcept { complete(R_DONE); }
  friend unifex::inplace_stop_token tag_invoke(unifex::tag_t<unifex::get_stop_token>, const trcv& r) noexcept {
    return r.it->src.get_token();
  }
};

template <class T>
bool wait_done(T& it, const char* key, const char* what, double secs = 30) {
  auto t0 = std::chrono::steady_clock::now();
  int spins = 0;
  while (it.result.load(std::memory_order_acquire) == R_PENDING) {
    if (++spins > 100) {
      sched_yield();
      spins = 0;
      if (std::chrono::duration<double>(std::chrono::steady_clock::now() - t0).count() > secs) {
        violation(key, "%s still pending after %.0fs", what, secs);
        report();
        _exit(0);
      }
    }
  }
  return true;
}

struct tstats {
  long timers = 0, value = 0, done = 0, batches = 0, ties = 0, cancel_races = 0, far_cancelled = 0,
       done_before_marker = 0, stop_before_start = 0, order_pairs = 0;
};

// heap-allocated operation state, freed as soon as the completion was observed (ASan: context must not touch it)
template <class Sched, class Sender>
struct heap_op {
  using op_t = decltype(unifex::connect(std::declval<Sender>(), std::declval<trcv<Sched>>()));
  op_t* op;
  void* mem;
  heap_op(Sender&& s, titem<Sched>* it, Sched sched) {
    mem = std::malloc(sizeof(op_t));
    op = new (mem) op_t(unifex::connect(std::move(s), trcv<Sched>{it, sched}));
  }
  void start() { unifex::start(*op); }
  void destroy() {
    op->~op_t();
    std::free(mem);
    mem = nullptr;
  }
};

// (a)+(b): batch of timers queued behind a gate item; checks never-early, order by (due, submission), once
template <class Sched>
void gate_batch(const char* name, Sched sched, rng& r, tstats& st) {
  using item_t = titem<Sched>;
  std::atomic<bool> gate{false};
  item_t gate_item;
  gate_item.gate = &gate;
  auto gs = unifex::schedule(sched);
  heap_op<Sched, decltype(gs)> gop(std::move(gs), &gate_item, sched);
  gop.start();
  // wait until the gate item is executing (holding the context thread)
  while (gate_item.signals.load(std::memory_order_acquire) == 0)
    sched_yield();
  int n = 2 + r.below(8);
  std::deque<item_t> items(n);
  using at_sender = decltype(unifex::schedule_at(sched, std::declval<tp_t<Sched>>()));
  std::vector<heap_op<Sched, at_sender>> ops;
  ops.reserve(n);
  auto base = clock_now(sched);
  for (int i = 0; i < n; ++i) {
    uint32_t k = r.below(6);
    // multiset of due times: past, now, equal groups, near future
    auto due = base;
    if (k == 0)
      due = base - std::chrono::microseconds(100 + r.below(1000));
    else if (k == 1)
      due = base;
    else if (k == 2)
      due = base + std::chrono::microseconds(200);
    else if (k == 3)
      due = base + std::chrono::microseconds(200);  // deliberate tie
    else
      due = base + std::chrono::microseconds(r.below(1500));
    items[i].due = due;
    items[i].index = i;
    ops.emplace_back(unifex::schedule_at(sched, due), &items[i], sched);
    ops.back().start();
  }
  gate.store(true, std::memory_order_release);
  wait_done(gate_item, "C07:timer:lost", name);
  gop.destroy();
  for (int i = 0; i < n; ++i) {
    wait_done(items[i], "C07:timer:lost", name);
    ops[i].destroy();  // freed immediately: any later touch by the context is a heap-use-after-free
    ++st.timers;
    if (items[i].result.load() != R_VALUE)
      violation("C07:timer:unexpected-completion", "%s: result %d without stop", name, items[i].result.load());
    else
      ++st.value;
    if (items[i].completed_at < items[i].due)
      violation("C07:timer:fired-early", "%s: schedule_at completed before its due time", name);
  }
  // order: sorted by completion sequence must be non-decreasing in (due, submission index)
  std::vector<item_t*> order;
  for (auto& it : items)
    order.push_back(&it);
  std::sort(order.begin(), order.end(), [](item_t* a, item_t* b) { return a->cseq.load() < b->cseq.load(); });
  for (size_t i = 1; i < order.size(); ++i) {
    item_t* a = order[i - 1];
    item_t* b = order[i];
    ++st.order_pairs;
    if (b->due < a->due)
      violation("C07:timer:due-time-order", "%s: a timer with a later due time completed before an earlier one "
                "(both were queued while the context was busy)", name);
    else if (!(a->due < b->due)) {
      ++st.ties;
      if (b->index < a->index)
        violation("C07:timer:tie-order", "%s: equal due times completed out of submission order (%d before %d)", name,
                  a->index, b->index);
    }
  }
  ++st.batches;
}

// (b'): cancel storm: timers due shortly, stop requested from another thread around the due time
template <class Sched>
void cancel_storm(const char* name, Sched sched, rng& r, tstats& st, int n) {
  using item_t = titem<Sched>;
  std::deque<item_t> items(n);
  using after_sender = decltype(sched_after(sched, std::chrono::microseconds(1)));
  std::vector<heap_op<Sched, after_sender>> ops;
  ops.reserve(n);
  std::vector<tp_t<Sched>> before(n);
  std::vector<int> delay_us(n), stop_at_us(n);
  std::vector<char> stop_first(n);
  for (int i = 0; i < n; ++i) {
    delay_us[i] = r.below(2000);
    stop_at_us[i] = r.below(2400);
    stop_first[i] = r.chance(1, 8);
  }
  std::atomic<int> started{0};
  std::thread stopper([&] {
    rng lr(r.next());
    auto t0 = std::chrono::steady_clock::now();
    std::vector<int> idx(n);
    for (int i = 0; i < n; ++i)
      idx[i] = i;
    std::sort(idx.begin(), idx.end(), [&](int a, int b) { return stop_at_us[a] < stop_at_us[b]; });
    for (int i : idx) {
      if (stop_first[i] || lr.chance(1, 3))
        continue;  // some timers expire naturally
      while (started.load(std::memory_order_acquire) <= i)
        sched_yield();
      while (std::chrono::steady_clock::now() - t0 < std::chrono::microseconds(stop_at_us[i])) {
      }
      items[i].src.request_stop();
    }
  });
  for (int i = 0; i < n; ++i) {
    items[i].index = i;
    if (stop_first[i]) {
      items[i].src.request_stop();
      ++st.stop_before_start;
    }
    // read the clock before the sender is even created: some schedulers fix the due time at creation,
    // others at start(); "not before `before + d`" is sound for both
    before[i] = clock_now(sched);
    ops.emplace_back(sched_after(sched, std::chrono::microseconds(delay_us[i])), &items[i], sched);
    ops.back().start();
    started.store(i + 1, std::memory_order_release);
  }
  stopper.join();
  for (int i = 0; i < n; ++i) {
    wait_done(items[i], "C07:timer:lost", name);
    ops[i].destroy();
    ++st.timers;
    ++st.cancel_races;
    int res = items[i].result.load();
    if (res == R_VALUE) {
      ++st.value;
      if (items[i].completed_at < before[i] + std::chrono::microseconds(delay_us[i]))
        violation("C07:timer:fired-early", "%s: schedule_after(%dus) completed with value too early", name, delay_us[i]);
      if (stop_first[i])
        violation("C07:timer:value-although-stop-before-start", "%s", name);
    } else if (res == R_DONE) {
      ++st.done;
      if (!items[i].src.stop_requested())
        violation("C07:timer:done-without-stop", "%s", name);
    } else {
      violation("C07:timer:unexpected-error", "%s", name);
    }
  }
}

// (c): far-future timer cancelled: must complete with done long before its due time
template <class Sched>
void far_cancel(const char* name, Sched sched, rng& r, tstats& st) {
  using item_t = titem<Sched>;
  item_t far;
  auto s = sched_after(sched, std::chrono::hours(1));
  heap_op<Sched, decltype(s)> op(std::move(s), &far, sched);
  op.start();
  spin_ns(r.below(200000));
  far.src.request_stop();
  // marker scheduled after request_stop() returned
  item_t marker;
  auto ms = unifex::schedule(sched);
  heap_op<Sched, decltype(ms)> mop(std::move(ms), &marker, sched);
  mop.start();
  wait_done(marker, "C07:timer:lost", name);
  if (far.result.load(std::memory_order_acquire) != R_PENDING)
    ++st.done_before_marker;
  wait_done(far, "C07:timer:cancel-not-prompt", name, 20);
  if (far.result.load() != R_DONE)
    violation("C07:timer:cancelled-timer-not-done", "%s: result %d", name, far.result.load());
  mop.destroy();
  op.destroy();
  ++st.far_cancelled;
  ++st.timers;
}

void report_stats(const char* n, const tstats& s) {
  char k[128];
#define ST(name, v) \
  snprintf(k, sizeof k, "%s_%s", n, name); \
  stat_add(k, v)
  ST("timers", s.timers);
  ST("value", s.value);
  ST("done", s.done);
  ST("gate_batches", s.batches);
  ST("ordered_pairs_checked", s.order_pairs);
  ST("ties_checked", s.ties);
  ST("cancel_races", s.cancel_races);
  ST("stop_before_start", s.stop_before_start);
  ST("far_future_cancelled", s.far_cancelled);
  ST("far_cancel_done_before_marker", s.done_before_marker);
#undef ST
  stat_add("timers_total", s.timers);
}

template <class Sched>
void run_all(const char* name, Sched sched, const args& a) {
  rng r(a.seed);
  tstats st;
  for (long i = 0; i < a.iters; ++i) {
    gate_batch(name, sched, r, st);
    if (i % 2 == 0)
      cancel_storm(name, sched, r, st, 4 + r.below(12));
    if (i % 4 == 0)
      far_cancel(name, sched, r, st);
  }
  report_stats(name, st);
}

// thread_unsafe_event_loop: everything on this thread -----------------------------------------
void run_tuel(const args& a) {
  rng r(a.seed);
  tstats st;
  using loop_t = unifex::thread_unsafe_event_loop;
  for (long it = 0; it < a.iters; ++it) {
    loop_t loop;
    auto sched = loop.get_scheduler();
    using S = decltype(sched);
    using item_t = titem<S>;
    int n = 2 + r.below(8);
    std::deque<item_t> items(n);
    using at_sender = decltype(unifex::schedule_at(sched, std::declval<tp_t<S>>()));
    std::vector<heap_op<S, at_sender>> ops;
    ops.reserve(n);
    auto base = clock_now(sched);
    std::vector<char> stop_first(n);
    for (int i = 0; i < n; ++i) {
      uint32_t k = r.below(5);
      auto due = base + std::chrono::microseconds(k == 0 ? 0 : (k == 1 ? 300 : r.below(1500)));
      if (k == 4)
        due = base + std::chrono::hours(1);  // only reachable through cancellation
      items[i].due = due;
      items[i].index = i;
      stop_first[i] = (k == 4) ? 1 : r.chance(1, 5);
      if (stop_first[i]) {
        items[i].src.request_stop();  // stop requested before start
        ++st.stop_before_start;
      }
      ops.emplace_back(unifex::schedule_at(sched, due), &items[i], sched);
      ops.back().start();
    }
    // drive the loop: wait for a timer that is due after every finite one
    (void)loop.sync_wait(unifex::schedule_at(sched, base + std::chrono::microseconds(1600)));
    std::vector<item_t*> order;
    for (int i = 0; i < n; ++i) {
      ++st.timers;
      int res = items[i].result.load();
      if (res == R_PENDING) {
        violation("C07:timer:lost", "thread_unsafe_event_loop: timer %d not completed although a later one ran", i);
        continue;
      }
      if (stop_first[i]) {
        if (res != R_DONE)
          violation("C07:timer:value-although-stop-before-start", "thread_unsafe_event_loop");
        ++st.done;
      } else {
        if (res != R_VALUE)
          violation("C07:timer:unexpected-completion", "thread_unsafe_event_loop: result %d", res);
        if (items[i].completed_at < items[i].due)
          violation("C07:timer:fired-early", "thread_unsafe_event_loop");
        ++st.value;
        order.push_back(&items[i]);
      }
      ops[i].destroy();
    }
    std::sort(order.begin(), order.end(), [](item_t* x, item_t* y) { return x->cseq.load() < y->cseq.load(); });
    for (size_t i = 1; i < order.size(); ++i) {
      ++st.order_pairs;
      if (order[i]->due < order[i - 1]->due)
        violation("C07:timer:due-time-order", "thread_unsafe_event_loop");
      else if (!(order[i - 1]->due < order[i]->due)) {
        ++st.ties;
        if (order[i]->index < order[i - 1]->index)
          violation("C07:timer:tie-order", "thread_unsafe_event_loop: equal due times out of submission order");
      }
    }
    ++st.batches;
  }
  report_stats("tuel", st);
}

// time_point arithmetic ---------------------------------------------------------------------
using tp = unifex::linuxos::monotonic_clock::time_point;
__int128 model(const tp& t) {
  return (__int128)t.seconds_part() * 1000000000 + t.nanoseconds_part();
}
void run_arith(const args& a) {
  rng r(a.seed);
  long cases = 0;
  auto pick_ns = [&](int cls) -> long long {
    switch (cls) {
      case 0: return 0;
      case 1: return 1;
      case 2: return -1;
      case 3: return 999999999;
      case 4: return -999999999;
      case 5: return 1000000000;
      case 6: return -1000000000;
      case 7: return (long long)(r.next() % 3000000000ull) - 1500000000ll;
      default: return (long long)(r.next() % 2000) - 1000;
    }
  };
  auto pick_s = [&](int cls) -> long long {
    switch (cls) {
      case 0: return 0;
      case 1: return 1;
      case 2: return -1;
      case 3: return (long long)(r.next() % (1ull << 40));
      case 4: return -(long long)(r.next() % (1ull << 40));
      default: return (long long)(r.next() % 7) - 3;
    }
  };
  for (long i = 0; i < a.iters; ++i) {
    long long s1 = pick_s(r.below(6)), n1 = pick_ns(r.below(9));
    long long s2 = pick_s(r.below(6)), n2 = pick_ns(r.below(9));
    tp x = tp::from_seconds_and_nanoseconds(s1, n1);
    tp y = tp::from_seconds_and_nanoseconds(s2, n2);
    __int128 mx = (__int128)s1 * 1000000000 + n1, my = (__int128)s2 * 1000000000 + n2;
    ++cases;
    if (model(x) != mx || model(y) != my)
      violation("C07:time_point:normalisation-changes-value", "(%lld s, %lld ns)", s1, n1);
    // normal form: |ns| < 1e9 and same sign as seconds
    auto normal = [](const tp& t) {
      long long ns = t.nanoseconds_part();
      long long s = t.seconds_part();
      return ns > -1000000000 && ns < 1000000000 && !(s > 0 && ns < 0) && !(s < 0 && ns > 0);
    };
    if (!normal(x) || !normal(y))
      violation("C07:time_point:not-normalised", "(%lld s, %lld ns) -> (%lld, %lld)", s1, n1,
                (long long)x.seconds_part(), (long long)x.nanoseconds_part());
    // total order consistent with the model
    if ((x < y) != (mx < my) || (x == y) != (mx == my) || (x <= y) != (mx <= my) || (x > y) != (mx > my) ||
        (x >= y) != (mx >= my) || (x != y) != (mx != my))
      violation("C07:time_point:comparison-inconsistent", "(%lld,%lld) vs (%lld,%lld)", s1, n1, s2, n2);
    // += / -= of a nanosecond duration
    long long dn = pick_ns(r.below(9)) + (long long)(r.below(3)) * 1000000000ll * ((long long)r.below(2000) - 1000);
    std::chrono::nanoseconds d(dn);
    tp z = x + d;
    if (model(z) != mx + dn || !normal(z))
      violation("C07:time_point:addition-inexact", "(%lld,%lld) + %lldns", s1, n1, dn);
    tp w = x - d;
    if (model(w) != mx - dn || !normal(w))
      violation("C07:time_point:subtraction-inexact", "(%lld,%lld) - %lldns", s1, n1, dn);
    if (!((x + d) - d == x))
      violation("C07:time_point:add-sub-roundtrip", "(%lld,%lld) +- %lldns", s1, n1, dn);
    // difference of time points is exact in the clock's 100ns duration unit when the operands differ by
    // a multiple of 100ns
    long long k = (long long)(r.next() % 2000000000ull) - 1000000000ll;
    tp v = x + std::chrono::nanoseconds(k * 100);
    auto diff = v - x;
    if (std::chrono::duration_cast<std::chrono::nanoseconds>(diff).count() != k * 100)
      violation("C07:time_point:difference-inexact", "expected %lld00ns", k);
  }
  stat_add("arith_cases", cases);
  stat_add("timers_total", cases);
}

}  // namespace

int main(int argc, char** argv) {
  args a = parse_args(argc, argv);
  if (a.mode == "tstc") {
    unifex::timed_single_thread_context ctx;
    run_all("tstc", ctx.get_scheduler(), a);
  } else if (a.mode == "tuel") {
    run_tuel(a);
  } else if (a.mode == "epoll") {
    unifex::linuxos::io_epoll_context ctx;
    unifex::inplace_stop_source stop;
    std::thread t([&] { ctx.run(stop.get_token()); });
    run_all("epoll", ctx.get_scheduler(), a);
    stop.request_stop();
    t.join();
  } else if (a.mode == "uring") {
    unifex::linuxos::io_uring_context ctx;
    unifex::inplace_stop_source stop;
    std::thread t([&] { ctx.run(stop.get_token()); });
    run_all("uring", ctx.get_scheduler(), a);
    stop.request_stop();
    t.join();
  } else if (a.mode == "arith") {
    run_arith(a);
  } else {
    fprintf(stderr, "unknown mode\n");
    return 2;
  }
  report();
  return 0;
}
