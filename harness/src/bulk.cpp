// C17: bulk_schedule visits every index once before completing; find_if is exact and stays in range.
#include <vf/mt.hpp>

#include <unifex/bulk_join.hpp>
#include <unifex/bulk_schedule.hpp>
#include <unifex/bulk_transform.hpp>
#include <unifex/execution_policy.hpp>
#include <unifex/find_if.hpp>
#include <unifex/get_execution_policy.hpp>
#include <unifex/indexed_for.hpp>
#include <unifex/inline_scheduler.hpp>
#include <unifex/inplace_stop_token.hpp>
#include <unifex/just.hpp>
#include <unifex/let_value_with_stop_source.hpp>
#include <unifex/on.hpp>
#include <unifex/single_thread_context.hpp>
#include <unifex/static_thread_pool.hpp>
#include <unifex/sync_wait.hpp>
#include <unifex/then.hpp>

#include <algorithm>
#include <thread>
#include <memory>
#include <vector>

using namespace vf::mt;

// indexed_for is written against a global `execution` namespace (as in the repository's own test)
namespace execution {
class sequenced_policy {};
class parallel_policy {};
inline constexpr sequenced_policy seq{};
inline constexpr parallel_policy par{};
}  // namespace execution

namespace {

long g_cases = 0, g_find_cases = 0, g_stop_cases = 0, g_pred_calls = 0, g_bulk_indices = 0;

// receiver for a raw bulk_schedule: counts set_next per index, terminal signal, overlap
template <class Policy>
struct bulk_rcv {
  struct state {
    std::vector<std::atomic<int>> hits;
    std::atomic<int> terminal{0};   // 1 value 2 done 3 error
    std::atomic<int> after_terminal{0};
    std::atomic<int> in_next{0};
    std::atomic<int> overlap{0};
    std::atomic<long> nexts{0};
    unifex::inplace_stop_source src;
    long stop_at = -1;  // request stop from inside set_next(stop_at)
    explicit state(size_t n) : hits(n) {}
  };
  state* s;
  void set_next(std::size_t i) & noexcept {
    if (s->terminal.load(std::memory_order_acquire))
      s->after_terminal.fetch_add(1, std::memory_order_relaxed);
    if (s->in_next.fetch_add(1, std::memory_order_acq_rel) != 0)
      s->overlap.fetch_add(1, std::memory_order_relaxed);
    if (i < s->hits.size())
      s->hits[i].fetch_add(1, std::memory_order_relaxed);
    else
      violation("C17:bulk:index-out-of-range", "set_next(%zu) for n=%zu", i, s->hits.size());
    s->nexts.fetch_add(1, std::memory_order_relaxed);
    if ((long)i == s->stop_at)
      s->src.request_stop();
    s->in_next.fetch_sub(1, std::memory_order_acq_rel);
  }
  void set_value() && noexcept { finish(1); }
  template <class E>
  void set_error(E&&) && noexcept {
    finish(3);
  }
  void set_done() && noexcept { finish(2); }
  void finish(int r) noexcept {
    state* st = s;
    if (st->in_next.load(std::memory_order_acquire) != 0)
      violation("C17:bulk:terminal-overlaps-set_next", "terminal signal while a set_next call is running");
    int prev = st->terminal.exchange(r, std::memory_order_acq_rel);
    if (prev)
      violation("C01:bulk:completed-twice", "terminal signals %d then %d", prev, r);
  }
  friend unifex::inplace_stop_token tag_invoke(unifex::tag_t<unifex::get_stop_token>, const bulk_rcv& r) noexcept {
    return r.s->src.get_token();
  }
  friend Policy tag_invoke(unifex::tag_t<unifex::get_execution_policy>, const bulk_rcv&) noexcept { return {}; }
};

template <class Policy, class Sched>
void bulk_case(const char* pname, const char* sname, Sched sched, size_t n, long stop_at, bool sequential_policy) {
  using R = bulk_rcv<Policy>;
  typename R::state st(n);
  st.stop_at = stop_at;
  {
    auto op = unifex::connect(unifex::bulk_schedule(sched, n), R{&st});
    unifex::start(op);
    int spins = 0;
    auto t0 = std::chrono::steady_clock::now();
    while (!st.terminal.load(std::memory_order_acquire)) {
      if (++spins > 100) {
        sched_yield();
        spins = 0;
        if (std::chrono::steady_clock::now() - t0 > std::chrono::seconds(30)) {
          violation("C17:bulk:never-completed", "%s/%s n=%zu", pname, sname, n);
          report();
          _exit(0);
        }
      }
    }
  }
  ++g_cases;
  g_bulk_indices += st.nexts.load();
  int term = st.terminal.load();
  if (st.after_terminal.load())
    violation("C17:bulk:set_next-after-terminal", "%s/%s n=%zu", pname, sname, n);
  if (sequential_policy && st.overlap.load())
    violation("C17:bulk:set_next-overlap-under-sequenced-policy", "%s/%s n=%zu", pname, sname, n);
  if (stop_at < 0) {
    if (term != 1)
      violation("C17:bulk:unexpected-terminal", "%s/%s n=%zu terminal=%d without stop", pname, sname, n, term);
    for (size_t i = 0; i < n; ++i)
      if (st.hits[i].load() != 1) {
        violation("C17:bulk:index-not-visited-exactly-once", "%s/%s n=%zu index %zu visited %d times", pname, sname, n, i,
                  st.hits[i].load());
        break;
      }
  } else {
    ++g_stop_cases;
    // after a stop: every index at most once; the visited set is a prefix made of whole cancellation chunks;
    // fewer than n visited => done
    size_t visited = 0;
    bool gap = false;
    for (size_t i = 0; i < n; ++i) {
      int h = st.hits[i].load();
      if (h > 1)
        violation("C17:bulk:index-visited-twice", "%s/%s n=%zu index %zu", pname, sname, n, i);
      if (h == 0)
        gap = true;
      else {
        if (gap)
          violation("C17:bulk:visited-set-not-a-prefix", "%s/%s n=%zu index %zu visited after a skipped one", pname, sname, n, i);
        ++visited;
      }
    }
    if (visited < n && term != 2)
      violation("C17:bulk:partial-visit-without-done", "%s/%s n=%zu visited=%zu terminal=%d", pname, sname, n, visited, term);
    if (visited == n && term != 1 && term != 2)
      violation("C17:bulk:unexpected-terminal", "%s/%s n=%zu terminal=%d", pname, sname, n, term);
    size_t chunk = unifex::bulk_cancellation_chunk_size;
    if (visited < n && visited % chunk != 0)
      violation("C17:bulk:partial-chunk", "%s/%s n=%zu visited=%zu is not a whole number of chunks of %zu", pname, sname, n,
                visited, chunk);
    if ((size_t)stop_at < n && visited <= (size_t)stop_at)
      violation("C17:bulk:stop-index-not-visited", "%s/%s", pname, sname);
  }
}

template <class Sched>
void bulk_all(const char* sname, Sched sched, const std::vector<size_t>& sizes, rng& r) {
  for (size_t n : sizes) {
    bulk_case<unifex::sequenced_policy>("seq", sname, sched, n, -1, true);
    bulk_case<unifex::unsequenced_policy>("unseq", sname, sched, n, -1, false);
    bulk_case<unifex::parallel_policy>("par", sname, sched, n, -1, false);
    bulk_case<unifex::parallel_unsequenced_policy>("par_unseq", sname, sched, n, -1, false);
    // stop at every chunk boundary (and one random interior index)
    size_t chunk = unifex::bulk_cancellation_chunk_size;
    for (size_t b = chunk; b <= n + chunk; b += chunk) {
      long at = (long)std::min(b, n) - 1;
      if (at < 0)
        continue;
      bulk_case<unifex::sequenced_policy>("seq", sname, sched, n, at, true);
      bulk_case<unifex::parallel_policy>("par", sname, sched, n, at, false);
    }
    if (n > 0)
      bulk_case<unifex::sequenced_policy>("seq", sname, sched, n, (long)r.below((uint32_t)n), true);
  }
}

// bulk_transform / bulk_join / indexed_for stacks
template <class Sched>
void stack_cases(const char* sname, Sched sched, const std::vector<size_t>& sizes) {
  for (size_t n : sizes) {
    std::vector<std::atomic<int>> out(n);
    auto res = unifex::sync_wait(unifex::bulk_join(unifex::bulk_transform(
        unifex::bulk_transform(
            unifex::bulk_schedule(sched, n), [n](std::size_t i) noexcept { return n - 1 - i; }, unifex::par_unseq),
        [&](std::size_t i) noexcept {
          if (i < n)
            out[i].fetch_add(1, std::memory_order_relaxed);
          else
            violation("C17:bulk_transform:index-out-of-range", "%zu for n=%zu", i, n);
        },
        unifex::par_unseq)));
    ++g_cases;
    if (!res.has_value())
      violation("C17:bulk_join:unexpected-done", "%s n=%zu", sname, n);
    for (size_t i = 0; i < n; ++i)
      if (out[i].load() != 1) {
        violation("C17:bulk_transform:index-not-visited-exactly-once", "%s n=%zu index %zu: %d", sname, n, i, out[i].load());
        break;
      }
    // indexed_for over a range of the same size
    std::vector<int> hits(n);
    struct range_t {
      size_t n;
      struct it {
        size_t i;
        size_t operator*() const { return i; }
        size_t operator[](size_t k) const { return i + k; }
        it& operator++() {
          ++i;
          return *this;
        }
        it operator+(std::ptrdiff_t d) const { return it{i + (size_t)d}; }
        std::ptrdiff_t operator-(const it& o) const { return (std::ptrdiff_t)i - (std::ptrdiff_t)o.i; }
        bool operator!=(const it& o) const { return i != o.i; }
        bool operator==(const it& o) const { return i == o.i; }
        using difference_type = std::ptrdiff_t;
        using value_type = size_t;
        using reference = size_t;
        using pointer = const size_t*;
        using iterator_category = std::random_access_iterator_tag;
      };
      using iterator = it;
      it begin() const { return it{0}; }
      it end() const { return it{n}; }
      size_t size() const { return n; }
    };
    auto r2 = unifex::sync_wait(unifex::indexed_for(
        unifex::on(sched, unifex::just()), ::execution::seq, range_t{n}, [&](size_t i) noexcept {
          if (i < n)
            ++hits[i];
          else
            violation("C17:indexed_for:index-out-of-range", "%zu for n=%zu", i, n);
        }));
    ++g_cases;
    if (!r2.has_value())
      violation("C17:indexed_for:unexpected-done", "%s n=%zu", sname, n);
    for (size_t i = 0; i < n; ++i)
      if (hits[i] != 1) {
        violation("C17:indexed_for:index-not-visited-exactly-once", "%s n=%zu index %zu: %d", sname, n, i, hits[i]);
        break;
      }
  }
}

// find_if -------------------------------------------------------------------------------------
template <class Policy, class Sched>
void find_case(const char* pname, Sched sched, size_t n, const std::vector<size_t>& match_at) {
  // exactly-sized heap array: any access outside [begin, end) is an ASan heap-buffer-overflow
  std::unique_ptr<int[]> data(new int[n ? n : 1]);
  for (size_t i = 0; i < n; ++i)
    data[i] = 0;
  for (size_t m : match_at)
    if (m < n)
      data[m] = 1;
  const int* b = data.get();
  const int* e = data.get() + n;
  std::atomic<long> outside{0}, calls{0};
  auto res = unifex::sync_wait(unifex::on(
      sched,
      unifex::then(
          unifex::find_if(
              unifex::just(b, e),
              [&, b, e](const int& v) noexcept {
                calls.fetch_add(1, std::memory_order_relaxed);
                if (&v < b || &v >= e) {
                  // a scan that left the range usually never finds its end again: report and leave
                  if (outside.fetch_add(1, std::memory_order_relaxed) == 0) {
                    violation("C17:find_if:predicate-called-outside-range",
                              "%s n=%zu: predicate invoked on address %ld elements from begin", pname, n, (long)(&v - b));
                    report();
                    _exit(0);
                  }
                  return false;
                }
                return v == 1;
              },
              Policy{}),
          [](const int* it) noexcept { return it; })));
  ++g_find_cases;
  g_pred_calls += calls.load();
  const int* expect = std::find_if(b, e, [](int v) { return v == 1; });
  if (outside.load())
    violation("C17:find_if:predicate-called-outside-range", "%s n=%zu: %ld calls outside [begin,end)", pname, n, outside.load());
  if (!res.has_value())
    violation("C17:find_if:unexpected-done", "%s n=%zu", pname, n);
  else if (*res != expect)
    violation("C17:find_if:wrong-result", "%s n=%zu: returned offset %ld, std::find_if gives %ld", pname, n,
              (long)(*res - b), (long)(expect - b));
}

// execution-policy composition ---------------------------------------------------------------------
// A bulk source that *honours* the policy its receiver advertises: when the policy permits parallel execution it calls
// set_next from three threads that rendezvous so that calls really overlap, otherwise from one thread in index order.
// Monitors: (1) the policy bulk_transform advertises upstream is the intersection of its function's policy and the
// downstream receiver's policy (a function or receiver that did not permit parallel execution is never run concurrently,
// one that did not permit unsequenced execution... is told apart only by rule 1), (2) no function with a non-parallel
// policy and no receiver with a non-parallel policy observes overlapping calls, (3) every index arrives exactly once.
template <class P>
constexpr int pol_bits() {
  using U = unifex::remove_cvref_t<P>;
  if constexpr (std::is_same_v<U, unifex::parallel_unsequenced_policy>)
    return 3;
  else if constexpr (std::is_same_v<U, unifex::unsequenced_policy>)
    return 2;
  else if constexpr (std::is_same_v<U, unifex::parallel_policy>)
    return 1;
  else
    return 0;
}
long g_policy_cases = 0, g_policy_parallel_runs = 0, g_policy_overlaps_seen = 0;

struct psrc_state {
  std::atomic<int> advertised{-1};
};
struct policy_source {
  size_t n;
  psrc_state* st;
  template <template <typename...> class Variant, template <typename...> class Tuple>
  using value_types = Variant<Tuple<>>;
  template <template <typename...> class Variant, template <typename...> class Tuple>
  using next_types = Variant<Tuple<std::size_t>>;
  template <template <typename...> class Variant>
  using error_types = Variant<std::exception_ptr>;
  static constexpr bool sends_done = false;
  template <class R>
  struct op {
    R r;
    size_t n;
    psrc_state* st;
    void start() & noexcept {
      using pol = decltype(unifex::get_execution_policy(r));
      constexpr int bits = pol_bits<pol>();
      st->advertised.store(bits);
      if constexpr ((bits & 1) != 0) {
        std::atomic<int> arrived{0};
        std::vector<std::thread> ts;
        for (int t = 0; t < 3; ++t)
          ts.emplace_back([&, t] {
            arrived.fetch_add(1);
            while (arrived.load() < 3)
              sched_yield();
            for (size_t i = (size_t)t; i < n; i += 3)
              unifex::set_next(r, i);
          });
        for (auto& t : ts)
          t.join();
        ++g_policy_parallel_runs;
      } else {
        for (size_t i = 0; i < n; ++i)
          unifex::set_next(r, i);
      }
      unifex::set_value(std::move(r));
    }
  };
  template <class R>
  friend op<unifex::remove_cvref_t<R>> tag_invoke(unifex::tag_t<unifex::connect>, policy_source s, R&& r) {
    return op<unifex::remove_cvref_t<R>>{(R &&) r, s.n, s.st};
  }
};

struct overlap_probe {
  std::atomic<int> in{0}, overlap{0};
  std::atomic<long> calls{0};
  void enter() noexcept {
    if (in.fetch_add(1, std::memory_order_acq_rel) != 0)
      overlap.fetch_add(1, std::memory_order_relaxed);
    calls.fetch_add(1, std::memory_order_relaxed);
    // stay inside long enough for a concurrent caller to be seen
    for (int i = 0; i < 50; ++i)
      sched_yield();
  }
  void leave() noexcept { in.fetch_sub(1, std::memory_order_acq_rel); }
};

template <class RP>
struct policy_rcv {
  overlap_probe* pr;
  std::vector<std::atomic<int>>* hits;
  std::atomic<int>* terminal;
  void set_next(std::size_t i) & noexcept {
    pr->enter();
    if (i < hits->size())
      (*hits)[i].fetch_add(1, std::memory_order_relaxed);
    else
      violation("C17:policy:index-out-of-range", "%zu", i);
    pr->leave();
  }
  void set_value() && noexcept {
    if (terminal->exchange(1))
      violation("C01:policy:completed-twice", "bulk_transform stack");
  }
  template <class E>
  void set_error(E&&) && noexcept {
    terminal->exchange(3);
  }
  void set_done() && noexcept { terminal->exchange(2); }
  friend RP tag_invoke(unifex::tag_t<unifex::get_execution_policy>, const policy_rcv&) noexcept { return {}; }
};

template <class F1, class F2, class RP>
void policy_case(size_t n) {
  constexpr int b1 = pol_bits<F1>(), b2 = pol_bits<F2>(), br = pol_bits<RP>();
  constexpr int expect = b1 & b2 & br;
  psrc_state st;
  overlap_probe p1, p2, pr;
  std::vector<std::atomic<int>> hits(n);
  std::atomic<int> terminal{0};
  {
    auto snd = unifex::bulk_transform(
        unifex::bulk_transform(
            policy_source{n, &st},
            [&p1](std::size_t i) noexcept {
              p1.enter();
              p1.leave();
              return i;
            },
            F1{}),
        [&p2](std::size_t i) noexcept {
          p2.enter();
          p2.leave();
          return i;
        },
        F2{});
    auto op = unifex::connect(std::move(snd), policy_rcv<RP>{&pr, &hits, &terminal});
    unifex::start(op);
  }
  ++g_policy_cases;
  if (st.advertised.load() != expect)
    violation("C17:policy:advertised-policy-is-not-the-intersection",
              "bulk_transform(bulk_transform(src, f1:%d), f2:%d) -> receiver:%d advertises %d upstream, intersection is %d "
              "(bit0 parallel, bit1 unsequenced)", b1, b2, br, st.advertised.load(), expect);
  if (!(b1 & 1) && p1.overlap.load())
    violation("C17:policy:function-run-concurrently-beyond-its-policy", "inner function policy %d, %d overlapping calls", b1,
              p1.overlap.load());
  if (!(b2 & 1) && p2.overlap.load())
    violation("C17:policy:function-run-concurrently-beyond-its-policy", "outer function policy %d, %d overlapping calls", b2,
              p2.overlap.load());
  if (!(br & 1) && pr.overlap.load())
    violation("C17:policy:receiver-set_next-concurrent-beyond-its-policy", "receiver policy %d, %d overlapping calls", br,
              pr.overlap.load());
  g_policy_overlaps_seen += p1.overlap.load() + p2.overlap.load() + pr.overlap.load();
  if (terminal.load() != 1)
    violation("C17:policy:unexpected-terminal", "terminal=%d", terminal.load());
  for (size_t i = 0; i < n; ++i)
    if (hits[i].load() != 1) {
      violation("C17:policy:index-not-visited-exactly-once", "index %zu: %d", i, hits[i].load());
      break;
    }
}

template <class F1, class F2>
void policy_cases_r(size_t n) {
  policy_case<F1, F2, unifex::sequenced_policy>(n);
  policy_case<F1, F2, unifex::unsequenced_policy>(n);
  policy_case<F1, F2, unifex::parallel_policy>(n);
  policy_case<F1, F2, unifex::parallel_unsequenced_policy>(n);
}
template <class F1>
void policy_cases_f2(size_t n) {
  policy_cases_r<F1, unifex::sequenced_policy>(n);
  policy_cases_r<F1, unifex::unsequenced_policy>(n);
  policy_cases_r<F1, unifex::parallel_policy>(n);
  policy_cases_r<F1, unifex::parallel_unsequenced_policy>(n);
}
void policy_all(size_t n) {
  policy_cases_f2<unifex::sequenced_policy>(n);
  policy_cases_f2<unifex::unsequenced_policy>(n);
  policy_cases_f2<unifex::parallel_policy>(n);
  policy_cases_f2<unifex::parallel_unsequenced_policy>(n);
}

}  // namespace

int main(int argc, char** argv) {
  args a = parse_args(argc, argv);
  rng r(a.seed);
  bool thorough = a.geti("thorough", 0) != 0;
  if (a.mode == "bulk") {
    std::vector<size_t> sizes;
    for (size_t n = 0; n <= (thorough ? 70u : 40u); ++n)
      sizes.push_back(n);
    for (size_t n : {255u, 256u, 257u, 1000u, 4096u})
      sizes.push_back(n);
    bulk_all("inline", unifex::inline_scheduler{}, sizes, r);
    {
      unifex::single_thread_context ctx;
      bulk_all("single_thread", ctx.get_scheduler(), sizes, r);
      stack_cases("single_thread", ctx.get_scheduler(), sizes);
    }
    {
      unifex::static_thread_pool pool(4);
      bulk_all("pool4", pool.get_scheduler(), sizes, r);
      stack_cases("pool4", pool.get_scheduler(), sizes);
    }
  } else if (a.mode == "find") {
    long lo = a.geti("lo", 0), hi = a.geti("hi", 1100), step = a.geti("step", 1);
    unifex::static_thread_pool pool(4);
    unifex::single_thread_context ctx;
    for (long n = lo; n <= hi; n += step) {
      std::vector<std::vector<size_t>> matches;
      matches.push_back({});  // none
      if (n > 0) {
        matches.push_back({0});
        matches.push_back({(size_t)n / 2});
        matches.push_back({(size_t)n - 1});
        matches.push_back({(size_t)r.below((uint32_t)n), (size_t)r.below((uint32_t)n), (size_t)n - 1});
      }
      for (auto& m : matches) {
        find_case<unifex::sequenced_policy>("seq", ctx.get_scheduler(), (size_t)n, m);
        find_case<unifex::parallel_policy>("par", pool.get_scheduler(), (size_t)n, m);
      }
    }
  } else if (a.mode == "policy") {
    for (size_t n : {0u, 1u, 7u, 24u})
      policy_all(n);
  } else {
    fprintf(stderr, "unknown mode\n");
    return 2;
  }
  stat_add("bulk_cases", g_cases);
  stat_add("bulk_stop_cases", g_stop_cases);
  stat_add("bulk_indices_visited", g_bulk_indices);
  stat_add("policy_cases", g_policy_cases);
  stat_add("policy_parallel_runs", g_policy_parallel_runs);
  stat_add("policy_overlapping_calls_seen", g_policy_overlaps_seen);
  stat_add("find_if_cases", g_find_cases);
  stat_add("find_if_predicate_calls", g_pred_calls);
  report();
  return 0;
}
