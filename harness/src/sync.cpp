// C15 (async_mutex v1/v2) and C16 (manual/auto reset events) under multi-threaded stress.
#include <vf/mt.hpp>

#include <unifex/async_auto_reset_event.hpp>
#include <unifex/inline_scheduler.hpp>
#include <unifex/inplace_stop_token.hpp>
#include <unifex/manual_lifetime.hpp>
#include <unifex/scheduler_concepts.hpp>
#include <unifex/single_thread_context.hpp>
#include <unifex/stop_when.hpp>
#include <unifex/sync_wait.hpp>
#include <unifex/v1/async_manual_reset_event.hpp>
#include <unifex/v1/async_mutex.hpp>
#include <unifex/v2/async_manual_reset_event.hpp>
#include <unifex/v2/async_mutex.hpp>
#include <unifex/with_query_value.hpp>

#include <algorithm>
#include <optional>

using namespace vf::mt;

namespace {

std::atomic<uint64_t> g_seq{1};
inline uint64_t now() {
  return g_seq.fetch_add(1, std::memory_order_relaxed);
}
inline uint64_t self_id() {
  return (uint64_t)pthread_self();
}

constexpr int R_PENDING = 0, R_VALUE = 1, R_DONE = 2, R_ERROR = 3;

struct wait_state {
  std::atomic<int> result{R_PENDING};
  std::atomic<int> signals{0};
  std::atomic<uint64_t> complete_seq{0};
  std::atomic<uint64_t> complete_thread{0};
  unifex::inplace_stop_source src;
  const char* what = "";
  void complete(int r) noexcept {
    if (signals.fetch_add(1, std::memory_order_relaxed) != 0)
      violation("C01:sync:double-completion", "%s completed twice", what);
    complete_thread.store(self_id(), std::memory_order_relaxed);
    complete_seq.store(now(), std::memory_order_relaxed);
    result.store(r, std::memory_order_release);
  }
  // returns false when it gave up (lost wake-up)
  bool wait(const char* key, double secs = 30.0) {
    auto t0 = std::chrono::steady_clock::now();
    int spins = 0;
    while (result.load(std::memory_order_acquire) == R_PENDING) {
      if (++spins > 200) {
        sched_yield();
        spins = 0;
        if (std::chrono::duration<double>(std::chrono::steady_clock::now() - t0).count() > secs) {
          violation(key, "%s: started operation not completed after %.0fs although nothing is pending", what, secs);
          return false;
        }
      }
    }
    return true;
  }
};

template <class Sched>
struct rcvr {
  wait_state* st;
  Sched sched;
  void set_value() noexcept { st->complete(R_VALUE); }
  template <class E>
  void set_error(E&&) noexcept {
    st->complete(R_ERROR);
  }
  void set_done() noexcept { st->complete(R_DONE); }
  friend unifex::inplace_stop_token tag_invoke(unifex::tag_t<unifex::get_stop_token>, const rcvr& r) noexcept {
    return r.st->src.get_token();
  }
  friend Sched tag_invoke(unifex::tag_t<unifex::get_scheduler>, const rcvr& r) noexcept { return r.sched; }
};

// ---------------------------------------------------------------------------
// mutex
// ---------------------------------------------------------------------------
struct lockrec {
  uint64_t start_call, start_ret, grant;
};

template <class Mutex, bool Cancellable>
struct mutex_test {
  Mutex m;
  owner_monitor mon;
  long plain_counter = 0;  // written only inside the critical section (TSan sees broken exclusion)
  std::atomic<long> grants{0}, unlocks{0}, cancelled{0}, trylock_ok{0}, trylock_fail{0};
  std::atomic<long> stop_before_start{0}, stop_while_queued{0}, done_after_stop{0}, value_after_stop{0};
  std::atomic<long> queued{0}, immediate{0}, hop_completions{0};
  unifex::single_thread_context ctx;
  std::mutex recs_mu;
  std::vector<lockrec> recs;

  void cs(uint64_t tid) {
    if (!mon.enter(tid))
      violation("C15:mutex:overlapping-critical-sections", "two holders at once (%s)", Cancellable ? "v2" : "v1");
    ++plain_counter;
    if (trng().chance(1, 8))
      spin_ns(trng().below(2000));
    if (!mon.exit(tid))
      violation("C15:mutex:overlapping-critical-sections", "owner changed inside critical section (%s)",
                Cancellable ? "v2" : "v1");
  }

  template <class Sched>
  void lock_once(Sched sched, rng& r, uint64_t tid, std::vector<lockrec>& local, bool hop) {
    wait_state st;
    st.what = Cancellable ? "v2 async_lock" : "v1 async_lock";
    bool will_stop = Cancellable && !nostop && r.chance(1, 3);
    bool stop_first = will_stop && r.chance(1, 4);
    if (stop_first) {
      st.src.request_stop();
      stop_before_start.fetch_add(1, std::memory_order_relaxed);
    }
    auto op = unifex::connect(m.async_lock(), rcvr<Sched>{&st, sched});
    lockrec rec{};
    // v2: the operation was queued iff start() passed through the push_back site (296); a fresh
    // async_lock that wins the try_lock fast path never queued, even if its completion hop is pending
    const uint32_t pushes_before = tl_hits()[296];
    rec.start_call = now();
    unifex::start(op);
    rec.start_ret = now();
    bool was_queued = st.result.load(std::memory_order_acquire) == R_PENDING;
    if (Cancellable)
      was_queued = tl_hits()[296] != pushes_before;
    if (will_stop && !stop_first) {
      if (r.chance(1, 2))
        spin_ns(r.below(20000));
      if (st.result.load(std::memory_order_acquire) == R_PENDING)
        stop_while_queued.fetch_add(1, std::memory_order_relaxed);
      st.src.request_stop();
    }
    if (!st.wait("C15:mutex:lost-wakeup"))
      { report(); _exit(0); }
    int res = st.result.load(std::memory_order_acquire);
    if (res == R_VALUE) {
      rec.grant = st.complete_seq.load(std::memory_order_relaxed);
      grants.fetch_add(1, std::memory_order_relaxed);
      if (was_queued)
        queued.fetch_add(1, std::memory_order_relaxed);
      else
        immediate.fetch_add(1, std::memory_order_relaxed);
      if (will_stop)
        value_after_stop.fetch_add(1, std::memory_order_relaxed);
      if (hop && Cancellable) {  // only the v2 mutex declares scheduler affinity
        if (st.complete_thread.load() != (uint64_t)ctx_thread)
          violation("C11:mutex:completion-off-scheduler", "async_lock value delivered on a foreign thread");
        hop_completions.fetch_add(1, std::memory_order_relaxed);
      }
      if (!will_stop && was_queued)
        local.push_back(rec);
      cs(tid);
      m.unlock();
      unlocks.fetch_add(1, std::memory_order_relaxed);
    } else if (res == R_DONE) {
      if (!Cancellable || !will_stop)
        violation("C15:mutex:done-without-stop", "async_lock completed with done but stop was never requested");
      cancelled.fetch_add(1, std::memory_order_relaxed);
      done_after_stop.fetch_add(1, std::memory_order_relaxed);
    } else {
      violation("C15:mutex:unexpected-error", "async_lock completed with error");
    }
  }

  pthread_t ctx_thread{};
  bool nostop = false;

  void run(int T, long iters, uint64_t seed) {
    {
      // learn the context's thread
      std::atomic<bool> got{false};
      auto op = unifex::connect(unifex::schedule(ctx.get_scheduler()), probe{this, &got});
      unifex::start(op);
      while (!got.load(std::memory_order_acquire))
        sched_yield();
    }
    barrier bar(T);
    std::vector<std::thread> ths;
    for (int t = 0; t < T; ++t) {
      ths.emplace_back([&, t] {
        rng r(seed * 131 + t);
        std::vector<lockrec> local;
        uint64_t tid = t + 1;
        bar.wait();
        for (long i = 0; i < iters; ++i) {
          uint32_t a = r.below(10);
          if (a < 2) {
            if (m.try_lock()) {
              trylock_ok.fetch_add(1, std::memory_order_relaxed);
              grants.fetch_add(1, std::memory_order_relaxed);
              cs(tid);
              m.unlock();
              unlocks.fetch_add(1, std::memory_order_relaxed);
            } else {
              trylock_fail.fetch_add(1, std::memory_order_relaxed);
            }
          } else if (a < 7) {
            lock_once(unifex::inline_scheduler{}, r, tid, local, false);
          } else {
            lock_once(ctx.get_scheduler(), r, tid, local, true);
          }
          if (r.chance(1, 64))
            spin_ns(r.below(30000));  // idle gap: queue drains, lock goes free
        }
        std::lock_guard<std::mutex> lk(recs_mu);
        recs.insert(recs.end(), local.begin(), local.end());
      });
    }
    for (auto& t : ths)
      t.join();
    // quiescence: nobody holds the lock, so it must be acquirable (else it was leaked)
    if (!m.try_lock())
      violation("C15:mutex:lock-leaked", "try_lock fails at quiescence: grants=%ld unlocks=%ld cancelled=%ld (%s)",
                grants.load(), unlocks.load(), cancelled.load(), Cancellable ? "v2" : "v1");
    else
      m.unlock();
    if (grants.load() != unlocks.load())
      violation("C15:mutex:conservation", "grants=%ld unlocks=%ld", grants.load(), unlocks.load());
    if (plain_counter != grants.load())
      violation("C15:mutex:lost-update-in-critical-section", "counter=%ld grants=%ld", plain_counter, grants.load());
    // FIFO among queued, uncancelled waiters: nobody who started after A's start() returned is granted before A
    std::sort(recs.begin(), recs.end(), [](const lockrec& a, const lockrec& b) { return a.grant < b.grant; });
    uint64_t max_start_call = 0;
    long fifo_pairs = 0;
    for (auto& rec : recs) {
      if (max_start_call > rec.start_ret)
        violation("C15:mutex:fifo-inversion",
                  "a waiter that started (seq %llu) after another's start() returned (seq %llu) was granted first",
                  (unsigned long long)max_start_call, (unsigned long long)rec.start_ret);
      if (rec.start_call > max_start_call)
        max_start_call = rec.start_call;
      ++fifo_pairs;
    }
    const char* v = Cancellable ? "v2" : "v1";
    char k[128];
#define ST(name, val) \
  snprintf(k, sizeof k, "%s_%s", v, name); \
  stat_add(k, val)
    ST("lock_ops", grants.load() + cancelled.load() + trylock_fail.load());
    ST("grants", grants.load());
    ST("queued_grants", queued.load());
    ST("immediate_grants", immediate.load());
    ST("trylock_ok", trylock_ok.load());
    ST("trylock_fail", trylock_fail.load());
    ST("cancelled_done", done_after_stop.load());
    ST("stop_lost_race_value", value_after_stop.load());
    ST("stop_before_start", stop_before_start.load());
    ST("stop_while_queued", stop_while_queued.load());
    ST("hop_completions", hop_completions.load());
    ST("fifo_checked_waiters", fifo_pairs);
#undef ST
  }

  struct probe {
    mutex_test* self;
    std::atomic<bool>* got;
    void set_value() noexcept {
      self->ctx_thread = pthread_self();
      got->store(true, std::memory_order_release);
    }
    template <class E>
    void set_error(E&&) noexcept {}
    void set_done() noexcept {}
  };
};

// ---------------------------------------------------------------------------
// manual reset events
// ---------------------------------------------------------------------------
template <class Event, bool Cancellable>
struct event_test {
  unifex::single_thread_context ctx;
  pthread_t ctx_thread{};
  long rounds = 0, waits = 0, woken_by_set = 0, already_set = 0, cancelled = 0, cancel_lost = 0, hop_ok = 0,
       no_set_rounds = 0, reset_rounds = 0;

  struct probe {
    event_test* self;
    std::atomic<bool>* got;
    void set_value() noexcept {
      self->ctx_thread = pthread_self();
      got->store(true, std::memory_order_release);
    }
    template <class E>
    void set_error(E&&) noexcept {}
    void set_done() noexcept {}
  };

  using sched_t = decltype(std::declval<unifex::single_thread_context&>().get_scheduler());
  using op_t = decltype(unifex::connect(std::declval<Event&>().async_wait(), std::declval<rcvr<sched_t>>()));

  struct waiter {
    wait_state st;
    unifex::manual_lifetime<op_t> op;
    uint64_t start_call = 0, start_ret = 0;
    bool will_stop = false;
    std::atomic<uint64_t> stop_ret{0};
  };

  void round(rng& r, int W, int S) {
    Event evt;
    bool with_sets = !r.chance(1, 6);
    bool with_reset = r.chance(1, 3);
    std::vector<std::unique_ptr<waiter>> ws;
    for (int i = 0; i < W; ++i) {
      ws.push_back(std::make_unique<waiter>());
      ws.back()->st.what = Cancellable ? "v2 async_wait" : "v1 async_wait";
      ws.back()->will_stop = Cancellable && r.chance(1, 3);
    }
    std::atomic<uint64_t> first_set_call{0}, last_set_ret{0};
    std::atomic<int> sets_done{0};
    barrier bar(W + S + (with_reset ? 1 : 0));
    std::vector<std::thread> ths;
    uint64_t base = r.next();
    for (int i = 0; i < W; ++i) {
      ths.emplace_back([&, i] {
        rng lr(base + i);
        waiter& w = *ws[i];
        bar.wait();
        spin_ns(lr.below(20000));
        w.op.construct_with([&] { return unifex::connect(evt.async_wait(), rcvr<sched_t>{&w.st, ctx.get_scheduler()}); });
        w.start_call = now();
        unifex::start(w.op.get());
        w.start_ret = now();
        if (w.will_stop) {
          spin_ns(lr.below(20000));
          w.st.src.request_stop();
          w.stop_ret.store(now(), std::memory_order_relaxed);
        }
      });
    }
    for (int i = 0; i < S; ++i) {
      ths.emplace_back([&, i] {
        rng lr(base + 100 + i);
        bar.wait();
        if (!with_sets)
          return;
        spin_ns(lr.below(lr.chance(1, 2) ? 25000 : 90000));
        uint64_t c = now();
        uint64_t exp = 0;
        first_set_call.compare_exchange_strong(exp, c, std::memory_order_relaxed);
        evt.set();
        uint64_t rt = now();
        uint64_t prev = last_set_ret.load(std::memory_order_relaxed);
        while (prev < rt && !last_set_ret.compare_exchange_weak(prev, rt, std::memory_order_relaxed)) {
        }
        sets_done.fetch_add(1, std::memory_order_relaxed);
      });
    }
    if (with_reset) {
      ths.emplace_back([&] {
        rng lr(base + 777);
        bar.wait();
        for (int k = 0; k < 3; ++k) {
          spin_ns(lr.below(15000));
          evt.reset();
        }
      });
    }
    for (auto& t : ths)
      t.join();
    ++rounds;
    if (with_reset)
      ++reset_rounds;
    bool any_set = with_sets && S > 0;
    if (!any_set)
      ++no_set_rounds;
    // Without concurrent resets: once a set() has returned, every waiter (started before or after it) must
    // complete without any further set().
    if (any_set && !with_reset) {
      for (auto& w : ws)
        if (!w->st.wait("C16:event:waiter-stranded-after-set", 30.0))
          { report(); _exit(0); }
    }
    if (!any_set) {
      // nobody set the event: only cancelled waiters may have completed (with done)
      for (auto& w : ws) {
        int res = w->st.result.load(std::memory_order_acquire);
        if (res == R_VALUE)
          violation("C16:event:wait-completed-without-set", "%s completed with value, no set() was ever called",
                    w->st.what);
      }
    }
    // final set: everything still pending must now complete (waits racing with reset are never stranded)
    evt.set();
    for (auto& w : ws)
      if (!w->st.wait("C16:event:waiter-stranded-after-final-set", 30.0))
        { report(); _exit(0); }
    // the context thread must have delivered every value completion
    for (auto& w : ws) {
      int res = w->st.result.load(std::memory_order_acquire);
      ++waits;
      if (res == R_VALUE) {
        if (w->st.complete_thread.load() != (uint64_t)ctx_thread)
          violation("C11:event:completion-off-scheduler", "%s value delivered on a foreign thread", w->st.what);
        else
          ++hop_ok;
        if (w->will_stop)
          ++cancel_lost;
        uint64_t fs = first_set_call.load();
        if (fs && w->start_ret < fs)
          ++woken_by_set;
        else
          ++already_set;
      } else if (res == R_DONE) {
        if (!w->will_stop)
          violation("C16:event:done-without-stop", "%s completed with done without a stop request", w->st.what);
        ++cancelled;
      } else {
        violation("C16:event:unexpected-error", "%s completed with error", w->st.what);
      }
      w->op.destruct();
    }
    // reset() only affects later waits; after reset a fresh wait must stay pending until the next set()
    evt.reset();
    if (evt.ready())
      violation("C16:event:ready-after-reset", "ready() is true right after reset() at quiescence");
    {
      waiter w;
      w.st.what = "wait after reset";
      w.op.construct_with([&] { return unifex::connect(evt.async_wait(), rcvr<sched_t>{&w.st, ctx.get_scheduler()}); });
      unifex::start(w.op.get());
      // drain the context so that a wrongly scheduled completion would have run
      drain();
      if (w.st.result.load(std::memory_order_acquire) != R_PENDING)
        violation("C16:event:wait-completed-after-reset-without-set", "a wait started after reset() completed without set()");
      evt.set();
      if (!w.st.wait("C16:event:waiter-stranded-after-set", 30.0))
        { report(); _exit(0); }
      w.op.destruct();
    }
  }

  // tight race: 2-4 waiters are queued first (so their order in the waiter list is known), then one thread cancels a
  // chosen waiter (the oldest half of the time) while another calls set(), released together with 0-400 ns of jitter.
  // Every waiter completes exactly once: the cancelled one with done or value, the others with value.
  long tight_rounds = 0, tight_cancel_won = 0, tight_set_won = 0;
  void tight_round(rng& r) {
    if constexpr (Cancellable) {
      Event evt;
      int W = 2 + (int)r.below(3);
      std::vector<std::unique_ptr<waiter>> ws;
      for (int i = 0; i < W; ++i) {
        ws.push_back(std::make_unique<waiter>());
        waiter& w = *ws.back();
        w.st.what = "v2 async_wait (queued before a cancel/set race)";
        w.op.construct_with([&] { return unifex::connect(evt.async_wait(), rcvr<sched_t>{&w.st, ctx.get_scheduler()}); });
        unifex::start(w.op.get());
      }
      int victim = r.chance(1, 2) ? 0 : (int)r.below((uint32_t)W);
      ws[victim]->will_stop = true;
      std::atomic<int> ready{0};
      uint64_t j1 = r.below(400), j2 = r.below(400);
      std::thread tc([&] {
        ready.fetch_add(1);
        while (ready.load() < 2) {
        }
        spin_ns(j1);
        ws[victim]->st.src.request_stop();
      });
      std::thread tsx([&] {
        ready.fetch_add(1);
        while (ready.load() < 2) {
        }
        spin_ns(j2);
        evt.set();
      });
      tc.join();
      tsx.join();
      for (auto& w : ws)
        if (!w->st.wait("C16:event:waiter-stranded-after-set", 30.0)) {
          report();
          _exit(0);
        }
      for (int i = 0; i < W; ++i) {
        int res = ws[i]->st.result.load(std::memory_order_acquire);
        if (res == R_DONE && i != victim)
          violation("C16:event:done-without-stop", "%s completed with done without a stop request", ws[i]->st.what);
        if (res != R_DONE && res != R_VALUE)
          violation("C16:event:unexpected-error", "%s completed with error", ws[i]->st.what);
        if (i == victim)
          (res == R_DONE ? tight_cancel_won : tight_set_won)++;
        ++waits;
        ws[i]->op.destruct();
      }
      ++tight_rounds;
    }
  }

  void drain() {
    std::atomic<bool> got{false};
    auto op = unifex::connect(unifex::schedule(ctx.get_scheduler()), probe{this, &got});
    unifex::start(op);
    while (!got.load(std::memory_order_acquire))
      sched_yield();
  }

  void run(long iters, uint64_t seed, int maxW, int maxS) {
    drain();
    rng r(seed);
    for (long i = 0; i < iters; ++i) {
      round(r, 1 + r.below(maxW), 1 + r.below(maxS));
      for (int k = 0; k < 20; ++k)
        tight_round(r);
    }
    const char* v = Cancellable ? "event_v2" : "event_v1";
    char k[128];
#define ST(name, val) \
  snprintf(k, sizeof k, "%s_%s", v, name); \
  stat_add(k, val)
    ST("rounds", rounds);
    ST("waits", waits);
    ST("outcome_woken_by_later_set", woken_by_set);
    ST("outcome_started_when_set_or_racing", already_set);
    ST("outcome_cancelled_done", cancelled);
    ST("outcome_stop_lost_race_value", cancel_lost);
    ST("value_completions_on_scheduler_thread", hop_ok);
    ST("rounds_without_set", no_set_rounds);
    ST("rounds_with_concurrent_reset", reset_rounds);
    if (Cancellable) {
      ST("tight_cancel_vs_set_rounds", tight_rounds);
      ST("tight_cancel_won", tight_cancel_won);
      ST("tight_set_won", tight_set_won);
    }
#undef ST
  }
};

// ---------------------------------------------------------------------------
// auto reset event
// ---------------------------------------------------------------------------
void autoreset(long iters, uint64_t seed) {
  rng r(seed);
  long values = 0, sets_total = 0, rounds = 0, done_seen = 0, cancelled_rounds = 0;
  // watchdog: a next() that is never completed although the producer finished with set_done() (or the stop request was
  // delivered) would block sync_wait forever
  std::atomic<long> progress{0};
  std::atomic<bool> finished_all{false};
  std::thread watchdog([&] {
    long last = -1;
    auto t0 = std::chrono::steady_clock::now();
    while (!finished_all.load(std::memory_order_acquire)) {
      std::this_thread::sleep_for(std::chrono::milliseconds(200));
      long p = progress.load(std::memory_order_relaxed);
      if (p != last) {
        last = p;
        t0 = std::chrono::steady_clock::now();
      } else if (std::chrono::duration<double>(std::chrono::steady_clock::now() - t0).count() > 30) {
        violation("C16:autoreset:stranded-next", "round %ld: next() still pending 30s after the producer finished / stop was "
                  "requested", p);
        report();
        _exit(0);
      }
    }
  });
  for (long i = 0; i < iters; ++i) {
    progress.store(i, std::memory_order_relaxed);
    unifex::async_auto_reset_event evt;
    int nsets = r.below(6);
    bool cancel = r.chance(1, 4);
    std::atomic<int> sets{0};
    std::thread producer([&] {
      rng lr(seed + i);
      for (int k = 0; k < nsets; ++k) {
        spin_ns(lr.below(15000));
        sets.fetch_add(1, std::memory_order_relaxed);  // counted before the call: values <= sets called so far
        evt.set();
      }
      if (!cancel) {
        spin_ns(lr.below(15000));
        evt.set_done();
      }
    });
    unifex::inplace_stop_source src;
    std::thread stopper;
    if (cancel)
      stopper = std::thread([&] {
        spin_ns(40000 + (seed + i) % 40000);
        src.request_stop();
      });
    int got = 0;
    bool finished = false;
    auto strm = evt.stream();
    for (int guard = 0; guard < 1000; ++guard) {
      auto res = unifex::sync_wait(unifex::with_query_value(strm.next(), unifex::get_stop_token, src.get_token()));
      if (res.has_value()) {
        if (finished)
          violation("C16:autoreset:value-after-done", "next() produced a value after the stream had ended");
        ++got;
        if (got > sets.load(std::memory_order_relaxed))
          violation("C16:autoreset:more-values-than-sets", "%d values for %d set() calls", got, sets.load());
      } else {
        if (finished)
          break;  // second done after the end: permanently done, as required
        finished = true;
        ++done_seen;
      }
    }
    producer.join();
    if (stopper.joinable())
      stopper.join();
    if (got > nsets)
      violation("C16:autoreset:more-values-than-sets", "%d values for %d set() calls", got, nsets);
    // (a set() that is overtaken by set_done() before the consumer looks is legitimately not delivered)
    values += got;
    sets_total += nsets;
    ++rounds;
    if (cancel)
      ++cancelled_rounds;
  }
  finished_all.store(true, std::memory_order_release);
  watchdog.join();
  stat_add("autoreset_rounds", rounds);
  stat_add("autoreset_values", values);
  stat_add("autoreset_sets", sets_total);
  stat_add("autoreset_done_seen", done_seen);
  stat_add("autoreset_cancelled_rounds", cancelled_rounds);
}

}  // namespace

int main(int argc, char** argv) {
  args a = parse_args(argc, argv);
  if (a.mode == "mutex1") {
    mutex_test<unifex::v1::async_mutex, false> t;
    t.run(a.threads, a.iters, a.seed);
  } else if (a.mode == "mutex2") {
    mutex_test<unifex::v2::async_mutex, true> t;
    t.nostop = a.geti("nostop", 0) != 0;
    t.run(a.threads, a.iters, a.seed);
  } else if (a.mode == "event1") {
    event_test<unifex::v1::async_manual_reset_event, false> t;
    t.run(a.iters, a.seed, (int)a.geti("maxW", 3), (int)a.geti("maxS", 2));
  } else if (a.mode == "event2") {
    event_test<unifex::v2::async_manual_reset_event, true> t;
    t.run(a.iters, a.seed, (int)a.geti("maxW", 3), (int)a.geti("maxS", 2));
  } else if (a.mode == "autoreset") {
    autoreset(a.iters, a.seed);
  } else {
    fprintf(stderr, "unknown mode\n");
    return 2;
  }
  report();
  return 0;
}
