// C18: model-based random operation sequences on any_object / any_unique / any_ref with tracked wrapped objects.
#include <vf/mt.hpp>

#include <unifex/any_object.hpp>
#include <unifex/any_ref.hpp>
#include <unifex/any_unique.hpp>
#include <unifex/overload.hpp>
#include <unifex/this.hpp>

#include <map>
#include <memory>
#include <optional>
#include <set>
#include <sstream>

using namespace vf::mt;

namespace {

// ledger of wrapped objects -------------------------------------------------------
struct ledger_t {
  std::set<const void*> live;
  long constructed = 0, destroyed = 0, copies = 0, moves = 0;
  const void* last = nullptr;
  int next_lineage = 1;
} L;
std::string g_trace;  // operation sequence of the current history (replay witness)

struct boom {
  int lineage;
};
inline bool g_arm_move_throw = false;
long g_throwing_moves = 0;

template <int Pad, bool NothrowMove, int Align = 8>
struct alignas(Align) wrapped {
  int lineage;
  bool moved = false;
  bool throw_on_poke = false;
  char pad[Pad];
  explicit wrapped(int lin) noexcept : lineage(lin) { reg(); }
  wrapped(const wrapped& o) : lineage(o.lineage), moved(o.moved) {
    ++L.copies;
    violation("C18:erase:wrapped-object-copied", "lineage %d (trace: %s)", lineage, g_trace.c_str());
    reg();
  }
  // a move that may throw does so when armed (once), before touching either object
  static int lineage_or_throw(const wrapped& o) noexcept(NothrowMove) {
    if constexpr (!NothrowMove) {
      if (g_arm_move_throw) {
        g_arm_move_throw = false;
        throw boom{o.lineage};
      }
    }
    return o.lineage;
  }
  wrapped(wrapped&& o) noexcept(NothrowMove) : lineage(lineage_or_throw(o)), moved(o.moved), throw_on_poke(o.throw_on_poke) {
    o.moved = true;
    ++L.moves;
    reg();
  }
  wrapped& operator=(wrapped&&) = delete;
  wrapped& operator=(const wrapped&) = delete;
  ~wrapped() {
    if (!L.live.erase(this))
      violation("C18:erase:destroy-unregistered", "lineage %d (trace: %s)", lineage, g_trace.c_str());
    ++L.destroyed;
  }
  void reg() {
    if (!L.live.insert(this).second)
      violation("C18:erase:construct-over-live", "lineage %d (trace: %s)", lineage, g_trace.c_str());
    ++L.constructed;
    L.last = this;
    if (reinterpret_cast<uintptr_t>(this) % Align != 0)
      violation("C18:erase:misaligned-storage", "object with alignment %d at %p", Align, (void*)this);
  }
};
using small_t = wrapped<4, true>;        // fits inline
using big_t = wrapped<200, true>;        // heap
using tmove_t = wrapped<4, false>;       // throwing move: heap when noexcept move is required
using over_t = wrapped<4, true, 64>;     // over-aligned

// CPOs ------------------------------------------------------------------------------
inline constexpr struct get_id_cpo {
  using type_erased_signature_t = int(const unifex::this_&) noexcept;
  template <class T>
  auto operator()(const T& x) const noexcept -> unifex::tag_invoke_result_t<get_id_cpo, const T&> {
    return unifex::tag_invoke(*this, x);
  }
} get_id{};
// any_unique's concrete holder only exposes a non-const get_wrapped_object, so a CPO whose erased signature takes
// `const this_&` does not compile with it unless it has a catch-all tag_invoke; use a non-const twin there
inline constexpr struct get_id_m_cpo {
  using type_erased_signature_t = int(unifex::this_&) noexcept;
  template <class T>
  auto operator()(T& x) const noexcept -> unifex::tag_invoke_result_t<get_id_m_cpo, T&> {
    return unifex::tag_invoke(*this, x);
  }
} get_id_m{};
inline constexpr struct poke_cpo {
  using type_erased_signature_t = int(unifex::this_&, int);
  template <class T>
  auto operator()(T& x, int v) const -> unifex::tag_invoke_result_t<poke_cpo, T&, int> {
    return unifex::tag_invoke(*this, x, v);
  }
} poke{};

template <int P, bool N, int A>
int tag_invoke(get_id_cpo, const wrapped<P, N, A>& w) noexcept {
  if (!L.live.count(&w))
    violation("C18:erase:cpo-on-dead-object", "get_id (trace: %s)", g_trace.c_str());
  return w.moved ? -w.lineage : w.lineage;
}
template <int P, bool N, int A>
int tag_invoke(get_id_m_cpo, wrapped<P, N, A>& w) noexcept {
  return tag_invoke(get_id_cpo{}, w);
}
template <int P, bool N, int A>
int tag_invoke(poke_cpo, wrapped<P, N, A>& w, int v) {
  if (!L.live.count(&w))
    violation("C18:erase:cpo-on-dead-object", "poke (trace: %s)", g_trace.c_str());
  if (w.throw_on_poke)
    throw boom{w.lineage};
  return w.lineage * 1000 + v;
}

// counting allocator -----------------------------------------------------------------
struct alloc_stats {
  long allocs = 0, deallocs = 0;
  std::map<void*, size_t> live;
} AS;
template <class T>
struct calloc_t {
  using value_type = T;
  calloc_t() = default;
  template <class U>
  calloc_t(const calloc_t<U>&) noexcept {}
  T* allocate(size_t n) {
    void* p = ::operator new(n * sizeof(T), std::align_val_t(alignof(T) < 16 ? 16 : alignof(T)));
    AS.live[p] = n * sizeof(T);
    ++AS.allocs;
    return static_cast<T*>(p);
  }
  void deallocate(T* p, size_t n) noexcept {
    auto it = AS.live.find(p);
    if (it == AS.live.end())
      violation("C18:erase:deallocate-unknown", "trace: %s", g_trace.c_str());
    else {
      if (it->second != n * sizeof(T))
        violation("C18:erase:deallocate-size-mismatch", "%zu vs %zu", it->second, n * sizeof(T));
      AS.live.erase(it);
    }
    ++AS.deallocs;
    ::operator delete(p, std::align_val_t(alignof(T) < 16 ? 16 : alignof(T)));
  }
  template <class U>
  friend bool operator==(const calloc_t&, const calloc_t<U>&) noexcept {
    return true;
  }
  template <class U>
  friend bool operator!=(const calloc_t&, const calloc_t<U>&) noexcept {
    return false;
  }
};

struct mslot {
  bool engaged = false;
  int type = 0;
  int id = 0;  // what get_id must return (negative: moved-from)
  bool heap = false;    // stored in heap storage (a move hands the block over and leaves the source hollow)
  bool hollow = false;  // moved-from heap wrapper: only destruction / assignment are allowed
};

long g_ops = 0, g_histories = 0, g_heap_objects = 0, g_inline_objects = 0, g_exceptions = 0;
std::set<std::string> g_distinct;

template <class Any>
struct obj_test {
  static constexpr int K = 4;
  std::optional<Any> slot[K];
  mslot model[K];

  void tr(const char* fmt, int a = 0, int b = 0, int c = 0) {
    char buf[64];
    snprintf(buf, sizeof buf, fmt, a, b, c);
    g_trace += buf;
    g_trace += ' ';
  }

  template <class T>
  void emplace(int i, int type, bool throwing) {
    int lin = L.next_lineage++;
    long before = AS.allocs;
    slot[i].emplace(std::in_place_type<T>, lin);
    (void)before;
    bool heap = !inside(i);
    model[i] = {true, type, lin, heap, false};
    if (heap)
      ++g_heap_objects;
    else
      ++g_inline_objects;
    (void)throwing;
  }

  // was the most recently constructed wrapped object placed inside wrapper i's own bytes?
  bool inside(int i) const {
    const char* b = reinterpret_cast<const char*>(&*slot[i]);
    const char* p = static_cast<const char*>(L.last);
    return p >= b && p < b + sizeof(Any);
  }

  // the source of a move: heap storage is handed over (source hollow, wrapped object not touched);
  // inline storage move-constructs the object (source keeps the moved-from remainder)
  void after_move(int i, long moves_before) {
    if (model[i].heap) {
      if (L.moves != moves_before)
        violation("C18:any_object:heap-object-moved-instead-of-transferred", "trace: %s", g_trace.c_str());
      model[i].hollow = true;
    } else {
      if (L.moves != moves_before + 1)
        violation("C18:any_object:inline-object-not-moved-exactly-once", "%ld moves (trace: %s)", L.moves - moves_before,
                  g_trace.c_str());
      int got = get_id(*slot[i]);
      if (got != -model[i].id && got != model[i].id)
        violation("C18:any_object:moved-from-wrapper-holds-foreign-object", "get_id %d vs lineage %d", got, model[i].id);
      model[i].id = got;
    }
  }

  void check_all(const char* after) {
    for (int i = 0; i < K; ++i) {
      if (slot[i].has_value() != model[i].engaged)
        violation("C18:any_object:engagement-mismatch", "slot %d after %s (trace: %s)", i, after, g_trace.c_str());
      if (!slot[i] || model[i].hollow)
        continue;
      int got = get_id(*slot[i]);
      if (got != model[i].id)
        violation("C18:any_object:wrong-object-after-operation", "slot %d: get_id=%d, model %d after %s (trace: %s)", i, got,
                  model[i].id, after, g_trace.c_str());
    }
  }

  void history(rng& r, bool small_only) {
    g_trace.clear();
    int n = 3 + r.below(10);
    for (int step = 0; step < n; ++step) {
      int op = r.below(7);
      int i = r.below(K), j = r.below(K);
      ++g_ops;
      if (op == 0 || (op <= 2 && !model[i].engaged)) {
        if (model[i].engaged) {
          slot[i].reset();
          model[i] = {};
          tr("reset(%d)", i);
        }
        int type = small_only ? 0 : r.below(4);
        tr("emplace(%d,t%d)", i, type);
        if (type == 0)
          emplace<small_t>(i, 0, false);
        else if (type == 1)
          emplace<big_t>(i, 1, false);
        else if (type == 2)
          emplace<tmove_t>(i, 2, false);
        else
          emplace<over_t>(i, 3, false);
      } else if (op == 1) {
        // move-construct j from i
        if (i != j && model[i].engaged && !model[i].hollow && !model[j].engaged) {
          tr("movector(%d<-%d)", j, i);
          long moves = L.moves;
          slot[j].emplace(std::move(*slot[i]));
          model[j] = model[i];
          after_move(i, moves);
        }
      } else if (op == 2) {
        if (i != j && model[i].engaged && !model[i].hollow && model[j].engaged) {
          tr("moveassign(%d<-%d)", j, i);
          long moves = L.moves;
          *slot[j] = std::move(*slot[i]);
          model[j] = model[i];
          after_move(i, moves);
        } else if (model[i].engaged && !model[i].hollow && i == j) {
          tr("selfmove(%d)", i);
          auto& alias = *slot[i];
          *slot[i] = std::move(alias);
        }
      } else if (op == 6) {
        // move-assignment whose wrapped move constructor throws (only wrappers that admit throwing moves keep such
        // objects inline): the destination's old object is destroyed exactly once, the destination is left empty-but-valid,
        // the source keeps its object
        if constexpr (!std::is_nothrow_move_assignable_v<Any>) {
          if (i != j && model[i].engaged && !model[i].hollow && model[i].type == 2 && !model[i].heap && model[j].engaged) {
            tr("throwing-moveassign(%d<-%d)", j, i);
            long destroyed = L.destroyed;
            bool had_object = !model[j].hollow;
            bool threw = false;
            g_arm_move_throw = true;
            try {
              *slot[j] = std::move(*slot[i]);
            } catch (const boom&) {
              threw = true;
            }
            g_arm_move_throw = false;
            if (!threw)
              violation("C18:any_object:throwing-move-did-not-propagate", "trace: %s", g_trace.c_str());
            if (L.destroyed != destroyed + (had_object ? 1 : 0))
              violation("C18:any_object:destination-not-destroyed-exactly-once-on-throwing-move", "%ld destructions (trace: %s)",
                        L.destroyed - destroyed, g_trace.c_str());
            model[j] = {true, -1, 0, false, true};
            ++g_throwing_moves;
          }
        }
      } else if (op == 3) {
        if (model[i].engaged) {
          tr("assignvalue(%d)", i);
          int lin = L.next_lineage++;
          *slot[i] = small_t{lin};
          // assigning from an rvalue moves it in (no copy): the stored object reports the lineage
          model[i] = {true, 0, lin, !inside(i), false};
        }
      } else if (op == 4) {
        if (model[i].engaged && !model[i].hollow) {
          tr("poke(%d)", i);
          int v = r.below(100);
          int got = poke(*slot[i], v);
          int lin = model[i].id < 0 ? -model[i].id : model[i].id;
          if (got != lin * 1000 + v)
            violation("C18:any_object:cpo-result-differs", "poke returned %d expected %d (trace: %s)", got, lin * 1000 + v,
                      g_trace.c_str());
        }
      } else if (op == 5) {
        if (model[i].engaged) {
          tr("reset(%d)", i);
          slot[i].reset();
          model[i] = {};
        }
      }
      check_all("op");
    }
    for (int i = 0; i < K; ++i) {
      slot[i].reset();
      model[i] = {};
    }
    if (!L.live.empty())
      violation("C18:any_object:wrapped-object-leaked", "%zu live objects at the end (trace: %s)", L.live.size(), g_trace.c_str());
    if (L.constructed != L.destroyed)
      violation("C18:any_object:construct-destroy-imbalance", "constructed %ld destroyed %ld (trace: %s)", L.constructed,
                L.destroyed, g_trace.c_str());
    if (!AS.live.empty())
      violation("C18:any_object:allocation-leaked", "%zu blocks (trace: %s)", AS.live.size(), g_trace.c_str());
    L.live.clear();
    AS.live.clear();
    ++g_histories;
    // canonical form of the history for the distinct count: operation names with slot numbers
    g_distinct.insert(g_trace);
  }
};

// exception propagation: a wrapped type whose CPO throws
struct thrower {
  int lineage;
  friend int tag_invoke(get_id_cpo, const thrower& t) noexcept { return t.lineage; }
  friend int tag_invoke(get_id_m_cpo, thrower& t) noexcept { return t.lineage; }
  friend int tag_invoke(poke_cpo, thrower& t, int) { throw boom{t.lineage}; }
};

template <class Any>
void exception_case(int lin) {
  Any a{std::in_place_type<thrower>, thrower{lin}};
  try {
    (void)poke(a, 1);
    violation("C18:erase:exception-swallowed", "poke on a throwing object returned normally");
  } catch (const boom& b) {
    ++g_exceptions;
    if (b.lineage != lin)
      violation("C18:erase:exception-changed", "caught lineage %d expected %d", b.lineage, lin);
  } catch (...) {
    violation("C18:erase:exception-changed", "different exception type");
  }
}

// any_unique: move leaves the source empty; heap storage through the allocator
template <class Any>
void unique_history(rng& r) {
  g_trace.clear();
  constexpr int K = 4;
  std::optional<Any> slot[K];
  int model[K] = {0, 0, 0, 0};  // lineage, 0 = no wrapper, -1 = wrapper emptied by move
  int n = 3 + r.below(10);
  char buf[64];
  for (int step = 0; step < n; ++step) {
    int op = r.below(5), i = r.below(K), j = r.below(K);
    ++g_ops;
    if (op == 0 || model[i] == 0) {
      if (slot[i])
        slot[i].reset();
      int lin = L.next_lineage++;
      int type = r.below(3);
      snprintf(buf, sizeof buf, "emplace(%d,t%d) ", i, type);
      g_trace += buf;
      if (type == 0)
        slot[i].emplace(std::allocator_arg, calloc_t<std::byte>{}, std::in_place_type<small_t>, lin);
      else if (type == 1)
        slot[i].emplace(std::allocator_arg, calloc_t<std::byte>{}, std::in_place_type<big_t>, lin);
      else
        slot[i].emplace(std::allocator_arg, calloc_t<std::byte>{}, std::in_place_type<over_t>, lin);
      model[i] = lin;
    } else if (op == 1) {
      if (i != j && model[i] > 0 && model[j] == 0) {
        snprintf(buf, sizeof buf, "movector(%d<-%d) ", j, i);
        g_trace += buf;
        long moves = L.moves;
        slot[j].emplace(std::move(*slot[i]));
        if (L.moves != moves)
          violation("C18:any_unique:move-touched-wrapped-object", "moving the wrapper must transfer ownership of the heap object");
        model[j] = model[i];
        model[i] = -1;
      }
    } else if (op == 2) {
      if (i != j && model[i] > 0 && model[j] != 0) {
        snprintf(buf, sizeof buf, "moveassign(%d<-%d) ", j, i);
        g_trace += buf;
        *slot[j] = std::move(*slot[i]);
        model[j] = model[i];
        model[i] = -1;
      }
    } else if (op == 3) {
      if (model[i] > 0) {
        int v = r.below(100);
        if (poke(*slot[i], v) != model[i] * 1000 + v)
          violation("C18:any_unique:cpo-result-differs", "trace: %s", g_trace.c_str());
      }
    } else {
      if (model[i] != 0) {
        snprintf(buf, sizeof buf, "reset(%d) ", i);
        g_trace += buf;
        slot[i].reset();
        model[i] = 0;
      }
    }
    for (int k = 0; k < K; ++k)
      if (model[k] > 0 && get_id_m(*slot[k]) != model[k])
        violation("C18:any_unique:wrong-object-after-operation", "slot %d: %d vs %d (trace: %s)", k, get_id_m(*slot[k]),
                  model[k], g_trace.c_str());
  }
  for (int k = 0; k < K; ++k)
    slot[k].reset();
  if (!L.live.empty() || L.constructed != L.destroyed)
    violation("C18:any_unique:wrapped-object-not-destroyed-exactly-once", "live %zu constructed %ld destroyed %ld (trace: %s)",
              L.live.size(), L.constructed, L.destroyed, g_trace.c_str());
  if (!AS.live.empty())
    violation("C18:any_unique:allocation-leaked", "%zu blocks (trace: %s)", AS.live.size(), g_trace.c_str());
  L.live.clear();
  AS.live.clear();
  ++g_histories;
  g_distinct.insert("u:" + g_trace);
}

void ref_history(rng& r) {
  using ref_t = unifex::any_ref_t<get_id, poke>;
  small_t a{L.next_lineage++};
  big_t b{L.next_lineage++};
  long c0 = L.constructed, m0 = L.moves;
  ref_t ra{a}, rb{b};
  ref_t copy = ra;
  int copy_lin = a.lineage;
  for (int i = 0; i < 6; ++i) {
    ++g_ops;
    int v = r.below(50);
    ref_t& pick = (i % 3 == 0) ? ra : (i % 3 == 1 ? rb : copy);
    int lin = (i % 3 == 0) ? a.lineage : (i % 3 == 1 ? b.lineage : copy_lin);
    if (get_id(pick) != lin || poke(pick, v) != lin * 1000 + v)
      violation("C18:any_ref:cpo-result-differs", "any_ref dispatches to the wrong object");
    if (r.chance(1, 3)) {
      bool to_b = r.chance(1, 2);
      copy = to_b ? rb : ra;
      copy_lin = to_b ? b.lineage : a.lineage;
    }
  }
  if (L.constructed != c0 || L.moves != m0)
    violation("C18:any_ref:referenced-object-copied-or-moved", "any_ref must not own or relocate its target");
  ++g_histories;
}

}  // namespace

int main(int argc, char** argv) {
  args a = parse_args(argc, argv);
  rng r(a.seed);
  using any_default = unifex::any_object_t<get_id, poke>;
  using any_small_inline =
      unifex::basic_any_object<8, 8, true, calloc_t<std::byte>, unifex::tag_t<get_id>, unifex::tag_t<poke>>;
  using any_big_inline =
      unifex::basic_any_object<256, 64, true, calloc_t<std::byte>, unifex::tag_t<get_id>, unifex::tag_t<poke>>;
  using any_throwing_ok =
      unifex::basic_any_object<32, 8, false, calloc_t<std::byte>, unifex::tag_t<get_id>, unifex::tag_t<poke>>;
  using uniq = unifex::any_unique_t<get_id_m, poke>;
  obj_test<any_default> t1;
  obj_test<any_small_inline> t2;
  obj_test<any_big_inline> t3;
  obj_test<any_throwing_ok> t4;
  for (long i = 0; i < a.iters; ++i) {
    t1.history(r, false);
    t2.history(r, false);
    t3.history(r, false);
    t4.history(r, false);
    unique_history<uniq>(r);
    ref_history(r);
    if (i % 16 == 0) {
      exception_case<any_default>(L.next_lineage++);
      exception_case<any_small_inline>(L.next_lineage++);
      exception_case<uniq>(L.next_lineage++);
    }
  }
  stat_add("histories", g_histories);
  stat_add("operations", g_ops);
  stat_add("distinct_histories", (long)g_distinct.size());
  stat_add("objects_stored_inline", g_inline_objects);
  stat_add("objects_stored_on_heap", g_heap_objects);
  stat_add("wrapped_moves", L.moves);
  stat_add("exceptions_propagated", g_exceptions);
  stat_add("throwing_move_assignments", g_throwing_moves);
  {
    std::lock_guard<std::mutex> lk(g().mu);
  }
  int k = 0;
  for (auto& s : g_distinct) {
    if (k++ % (g_distinct.size() / 4 + 1) == 0)
      sample(s.substr(0, 200));
  }
  report();
  return 0;
}
