// Deterministic (single-thread, driver-controlled) monitor toolkit.
// See DESIGN.md section 3 (M1-M8) and 4.1.
#pragma once

// (first: with UNIFEX_ENABLE_CONTINUATION_VISITATIONS=1 other headers rely on it having been seen)
#include <unifex/continuations.hpp>
#include <unifex/blocking.hpp>
#include <unifex/get_allocator.hpp>
#include <unifex/get_stop_token.hpp>
#include <unifex/inplace_stop_token.hpp>
#include <unifex/manual_lifetime.hpp>
#include <unifex/receiver_concepts.hpp>
#include <unifex/scheduler_concepts.hpp>
#include <unifex/sender_concepts.hpp>
#include <unifex/stop_token_concepts.hpp>
#include <unifex/unstoppable_token.hpp>
#include <unifex/tracing/async_stack.hpp>

#include <algorithm>
#include <cstdarg>
#include <cstdio>
#include <cstdlib>
#include <cstring>
#include <exception>
#include <deque>
#include <map>
#include <memory>
#include <optional>
#include <string>
#include <system_error>
#include <tuple>
#include <unordered_map>
#include <variant>
#include <vector>

#include <unistd.h>

#if defined(__SANITIZE_ADDRESS__)
#  include <sanitizer/asan_interface.h>
#  define VF_POISON(p, n) ASAN_POISON_MEMORY_REGION(p, n)
#  define VF_UNPOISON(p, n) ASAN_UNPOISON_MEMORY_REGION(p, n)
#else
#  define VF_POISON(p, n) ((void)0)
#  define VF_UNPOISON(p, n) ((void)0)
#endif

namespace vf {

// ---------------------------------------------------------------------------
// payload / fault types
// ---------------------------------------------------------------------------
struct injected {  // thrown by fault injection (M8)
  long k;
};
struct err_exc {  // leaf error payload carried inside std::exception_ptr
  int id;
};

enum { OC_VALUE = 0, OC_ERROR = 1, OC_DONE = 2 };
enum { MODE_INLINE = 0, MODE_DEFER = 1 };
enum { REACT_IGNORE = 0, REACT_DONE_NOW = 1, REACT_DONE_LATER = 2 };
enum {
  STOP_NONE = 0,
  STOP_PRE_CONNECT,
  STOP_PRE_START,
  STOP_IN_LEAF_START,  // a=leaf id, b=start count
  STOP_BETWEEN,        // a=step
  STOP_IN_FN,          // a=fn id
  STOP_AFTER_END
};
enum { K_VAL = 0, K_FN, K_RCVR, K_LEAFSND, K_LEAFOP, K_ERRV, K_MISC, K_NKINDS };
inline const char* kind_name(int k) {
  static const char* n[] = {"val", "fn", "rcvr", "leafsnd", "leafop", "errv", "misc"};
  return n[k];
}
constexpr int RCVR_TAG = 199;     // context tag of the outer receiver's scheduler
constexpr int RCVR_SCHED = 199;   // id of that scheduler
constexpr int RCVR_COOKIE = 4242;
constexpr int RCVR_ALLOC = 7;

struct leaf_cfg {
  int outcome = OC_VALUE, mode = MODE_INLINE, react = REACT_IGNORE, tag = 0;
};

struct scenario {
  long sid = 0;
  int prog = 0;
  bool destroy_in_completion = false;
  bool free_src_at_completion = false;
  bool lvalue = false;
  bool nostart = false;
  bool rcvr_throw = false;  // probe receiver throws from its first set_value
  int stop_kind = STOP_NONE, stop_a = 0, stop_b = 0;
  long throw_at = 0;
  int poison = 0;
  leaf_cfg def;
  std::map<std::pair<int, int>, leaf_cfg> cfg;
  std::vector<int> prio;
  std::map<std::string, std::string> kv;  // every key=value token as written (harness-specific keys)
  leaf_cfg get(int id, int n) const {
    leaf_cfg c = def;
    auto it = cfg.find({id, n});
    if (it != cfg.end())
      return it->second;  // an explicit entry for this very start is honoured as is (streams)
    it = cfg.find({id, -1});
    if (it != cfg.end())
      c = it->second;
    // loops (retry_when, repeat_effect_until) must terminate: the third and later
    // starts of any leaf succeed
    if (n >= 2)
      c.outcome = OC_VALUE;
    return c;
  }
};

struct leaf_op_base {
  int id = 0, n = 0;
  bool started = false, parked = false, completed = false, stop_seen = false;
  leaf_cfg cfg;
  virtual void complete_now() noexcept = 0;
  virtual int token_stopped() noexcept = 0;

protected:
  ~leaf_op_base() = default;
};

// counting stop source / token (M4) ------------------------------------------
struct csource {
  unifex::inplace_stop_source src;
  long registered = 0, constructed = 0, executed = 0;
};

// ---------------------------------------------------------------------------
// global state (single thread)
// ---------------------------------------------------------------------------
struct arena_t {
  void* mem = nullptr;
  size_t size = 0;
  void* get(size_t n, size_t align, int pattern) {
    release();
    size = n + 64;
    mem = std::aligned_alloc(std::max<size_t>(align, 64), (size + 63) / 64 * 64);
    fill(pattern);
    return mem;
  }
  void fill(int pattern) {
    unsigned char* p = static_cast<unsigned char*>(mem);
    static const unsigned char pats[3][8] = {
        {0xA5, 0xA5, 0xA5, 0xA5, 0xA5, 0xA5, 0xA5, 0xA5},
        {0x5A, 0x5A, 0x5A, 0x5A, 0x5A, 0x5A, 0x5A, 0x5A},
        {0x01, 0x40, 0xF7, 0xDE, 0xAD, 0x7F, 0x00, 0x03}};  // address-like garbage
    for (size_t i = 0; i < size; ++i)
      p[i] = pats[pattern % 3][i % 8];
  }
  void poison(int pattern) {
    fill(pattern + 1);
    VF_POISON(mem, size);
  }
  void release() {
    if (mem) {
      VF_UNPOISON(mem, size);
      std::free(mem);
      mem = nullptr;
    }
  }
};

struct state {
  // log
  std::string log;
  // scenario
  scenario scn;
  // ids
  int next_id = 1000;
  int cur_tag = 0;
  // fault injection
  long throw_points = 0;
  // ledger
  struct ent {
    int kind;
    long serial;
  };
  std::unordered_map<const void*, ent> live;
  long serial = 0;
  long n_constructed[K_NKINDS] = {}, n_destroyed[K_NKINDS] = {};
  // allocations made through counting_allocator
  std::unordered_map<void*, std::pair<size_t, int>> allocs;
  long n_alloc = 0, n_dealloc = 0;
  // leaves
  std::map<int, int> start_count;
  std::map<int, int> pred_calls;
  std::vector<leaf_op_base*> parked;
  // outer operation
  bool started = false, in_start = false;
  int n_completions = 0;
  void* op = nullptr;
  void (*op_destroy)(void*) = nullptr;
  arena_t arena;
  // stop
  csource* csrc = nullptr;
  unifex::inplace_stop_source* isrc = nullptr;
  bool stop_requested = false, stop_active = false, defer_free_src = false;
  int step = 0;
  int violations = 0;

  void reset() {
    log.clear();
    next_id = 1000;
    cur_tag = 0;
    throw_points = 0;
    live.clear();
    serial = 0;
    for (int i = 0; i < K_NKINDS; ++i)
      n_constructed[i] = n_destroyed[i] = 0;
    allocs.clear();
    n_alloc = n_dealloc = 0;
    start_count.clear();
    pred_calls.clear();
    parked.clear();
    started = in_start = false;
    n_completions = 0;
    op = nullptr;
    op_destroy = nullptr;
    stop_requested = stop_active = defer_free_src = false;
    step = 0;
    violations = 0;
  }
};
inline state G;

inline void dump_partial();
inline void write_all(int fd, const char* p, size_t n);
// a scenario of these sizes logs a few KB; megabytes mean a runaway loop (e.g. an operation that keeps completing):
// stop the process instead of exhausting memory, the runner reports it as `runaway`
inline void check_log_overflow() {
  if (G.log.size() > (6u << 20)) {
    G.log.resize(64 << 10);
    G.log.append("\n#OVERFLOW\n");
    dump_partial();
    const char m[] = "vf: event log overflow (runaway scenario)\n";
    write_all(2, m, sizeof m - 1);
    _exit(89);
  }
}
inline void ev(const char* fmt, ...) {
  char buf[1024];
  va_list ap;
  va_start(ap, fmt);
  int n = vsnprintf(buf, sizeof buf, fmt, ap);
  va_end(ap);
  if (n < 0)
    return;
  if (n >= (int)sizeof buf)
    n = sizeof buf - 1;
  G.log.append(buf, n);
  G.log.push_back('\n');
  check_log_overflow();
}
inline void viol(const char* fmt, ...) {
  char buf[1024];
  va_list ap;
  va_start(ap, fmt);
  vsnprintf(buf, sizeof buf, fmt, ap);
  va_end(ap);
  ++G.violations;
  G.log.append("V ");
  G.log.append(buf);
  G.log.push_back('\n');
}
inline void write_all(int fd, const char* p, size_t n) {
  while (n) {
    ssize_t w = ::write(fd, p, n);
    if (w <= 0)
      return;
    p += w;
    n -= w;
  }
}
inline void dump_partial() {
  static bool once = false;
  if (once)
    return;
  once = true;
  const char h[] = "#PARTIAL\n";
  write_all(1, h, sizeof h - 1);
  write_all(1, G.log.data(), G.log.size());
  const char t[] = "#CRASH\n";
  write_all(1, t, sizeof t - 1);
}

struct tag_guard {
  int prev;
  explicit tag_guard(int t) : prev(G.cur_tag) { G.cur_tag = t; }
  ~tag_guard() { G.cur_tag = prev; }
};

// M8 -------------------------------------------------------------------------
inline void maybe_throw(const char* what) {
  ++G.throw_points;
  if (G.scn.throw_at && G.throw_points == G.scn.throw_at) {
    ev("T %ld %s", G.throw_points, what);
    throw injected{G.throw_points};
  }
}

// M2 -------------------------------------------------------------------------
inline void ledger_add(const void* p, int kind) {
  auto r = G.live.emplace(p, state::ent{kind, ++G.serial});
  if (!r.second) {
    viol("ledger construct-over-live kind=%s over=%s", kind_name(kind), kind_name(r.first->second.kind));
    r.first->second = state::ent{kind, G.serial};
  }
  ++G.n_constructed[kind];
}
inline void ledger_del(const void* p, int kind) {
  auto it = G.live.find(p);
  if (it == G.live.end()) {
    viol("ledger destroy-unregistered kind=%s", kind_name(kind));
    return;
  }
  if (it->second.kind != kind)
    viol("ledger destroy-kind-mismatch kind=%s was=%s", kind_name(kind), kind_name(it->second.kind));
  G.live.erase(it);
  ++G.n_destroyed[kind];
}

template <int Kind, bool CopyThrows = false>
struct tracked {
  tracked() noexcept { ledger_add(this, Kind); }
  tracked(const tracked&) noexcept(!CopyThrows) {
    if constexpr (CopyThrows)
      maybe_throw("copy");
    ledger_add(this, Kind);
  }
  tracked(tracked&&) noexcept { ledger_add(this, Kind); }
  tracked& operator=(const tracked&) noexcept(!CopyThrows) {
    if constexpr (CopyThrows)
      maybe_throw("copy-assign");
    return *this;
  }
  tracked& operator=(tracked&&) noexcept { return *this; }
  ~tracked() { ledger_del(this, Kind); }
};

struct val : tracked<K_VAL, true> {
  int id;
  bool moved = false;
  explicit val(int i) noexcept : id(i) {}
  ~val() {
    // a later read through a dangling reference shows up as payload -777 in the log
    id = -777;
    moved = true;
  }
  val(const val& o) : tracked<K_VAL, true>(o), id(o.id), moved(o.moved) {}
  val(val&& o) noexcept : tracked<K_VAL, true>(std::move(o)), id(o.id), moved(o.moved) { o.moved = true; }
  val& operator=(const val& o) {
    tracked<K_VAL, true>::operator=(o);
    id = o.id;
    moved = o.moved;
    return *this;
  }
  val& operator=(val&& o) noexcept {
    id = o.id;
    moved = o.moved;
    o.moved = true;
    return *this;
  }
};
// a value whose *move* constructor is a throw point as well (decay-copies of rvalues inside adaptors can fail)
struct mval : val {
  explicit mval(int i) noexcept : val(i) {}
  mval(const mval& o) : val(o) {}
  mval(mval&& o) noexcept(false) : val((maybe_throw("move"), std::move(static_cast<val&>(o)))) {}
  mval& operator=(const mval& o) {
    val::operator=(o);
    return *this;
  }
  mval& operator=(mval&& o) noexcept(false) {
    maybe_throw("move-assign");
    val::operator=(std::move(static_cast<val&>(o)));
    return *this;
  }
};
inline int fresh_id() {
  return G.next_id++;
}

// ---------------------------------------------------------------------------
// structure printer (vf::collapse in DESIGN 4.1)
// ---------------------------------------------------------------------------
template <class T>
struct is_tuple : std::false_type {};
template <class... Ts>
struct is_tuple<std::tuple<Ts...>> : std::true_type {};
template <class T>
struct is_variant : std::false_type {};
template <class... Ts>
struct is_variant<std::variant<Ts...>> : std::true_type {};
template <class T>
struct is_optional : std::false_type {};
template <class T>
struct is_optional<std::optional<T>> : std::true_type {};
template <class T>
struct is_vector : std::false_type {};
template <class T, class A>
struct is_vector<std::vector<T, A>> : std::true_type {};

inline void describe_exception(std::string& out, const std::exception_ptr& ep) {
  if (!ep) {
    out += "e:null";
    return;
  }
  try {
    std::rethrow_exception(ep);
  } catch (const err_exc& e) {
    out += "e" + std::to_string(e.id);
  } catch (const injected& e) {
    out += "inj" + std::to_string(e.k);
  } catch (const val& v) {
    out += "ev" + std::to_string(v.id);
  } catch (const std::system_error& e) {
    out += "syserr" + std::to_string(e.code().value());
  } catch (const std::exception& e) {
    out += std::string("exc:") + e.what();
  } catch (...) {
    out += "exc:?";
  }
}

template <class T>
void describe(std::string& out, const T& x) {
  using U = unifex::remove_cvref_t<T>;
  if constexpr (std::is_base_of_v<val, U>) {
    if (x.moved)
      out += "~";
    out += std::to_string(x.id);
  } else if constexpr (std::is_same_v<U, std::exception_ptr>) {
    describe_exception(out, x);
  } else if constexpr (std::is_same_v<U, std::error_code>) {
    out += "ec" + std::to_string(x.value());
  } else if constexpr (std::is_same_v<U, bool>) {
    out += x ? "true" : "false";
  } else if constexpr (std::is_integral_v<U>) {
    out += "i" + std::to_string((long long)x);
  } else if constexpr (is_tuple<U>::value) {
    out += "(";
    bool first = true;
    std::apply(
        [&](const auto&... es) {
          ((out += (first ? "" : ","), first = false, describe(out, es)), ...);
        },
        x);
    out += ")";
  } else if constexpr (is_variant<U>::value) {
    if (x.valueless_by_exception()) {
      out += "<valueless>";
    } else {
      out += "<";
      std::visit([&](const auto& e) { describe(out, e); }, x);
      out += ">";
    }
  } else if constexpr (is_optional<U>::value) {
    if (x) {
      out += "?";
      describe(out, *x);
    } else {
      out += "?-";
    }
  } else if constexpr (is_vector<U>::value) {
    out += "[";
    bool first = true;
    for (const auto& e : x) {
      if (!first)
        out += ",";
      first = false;
      describe(out, e);
    }
    out += "]";
  } else if constexpr (std::is_same_v<U, unifex::tag_t<unifex::set_value>>) {
    out += "SV";
  } else if constexpr (std::is_same_v<U, unifex::tag_t<unifex::set_error>>) {
    out += "SE";
  } else if constexpr (std::is_same_v<U, unifex::tag_t<unifex::set_done>>) {
    out += "SD";
  } else if constexpr (std::is_empty_v<U>) {
    out += "{}";
  } else {
    out += "#";
  }
}
template <class... Ts>
std::string describe_all(const Ts&... xs) {
  std::string out;
  bool first = true;
  ((out += (first ? "" : ","), first = false, describe(out, xs)), ...);
  if (out.empty())
    out = "-";
  return out;
}

// ---------------------------------------------------------------------------
// stop handling
// ---------------------------------------------------------------------------
struct ctoken {
  csource* s = nullptr;
  bool stop_requested() const noexcept { return s->src.stop_requested(); }
  static constexpr bool stop_possible() noexcept { return true; }
  friend bool operator==(const ctoken& a, const ctoken& b) noexcept { return a.s == b.s; }
  friend bool operator!=(const ctoken& a, const ctoken& b) noexcept { return a.s != b.s; }

  template <class F>
  struct callback_type {
    struct wrap {
      csource* s;
      F f;
      void operator()() noexcept {
        ++s->executed;
        f();
      }
    };
    struct guard {
      csource* s;
      explicit guard(csource* s_) noexcept : s(s_) {
        ++s->registered;
        ++s->constructed;
      }
      ~guard() { --s->registered; }
    };
    csource* s;
    guard g;
    unifex::inplace_stop_callback<wrap> cb;
    template <class F2>
    explicit callback_type(ctoken t, F2&& f) noexcept(std::is_nothrow_constructible_v<F, F2>)
      : s(t.s), g(t.s), cb(t.s->src.get_token(), wrap{t.s, F{(F2&&)f}}) {}
    callback_type(callback_type&&) = delete;
  };
};

inline void free_source_now() {
  if (G.csrc) {
    if (G.csrc->registered != 0)
      viol("M4 source-freed-with-registrations n=%ld", G.csrc->registered);
    delete G.csrc;
    G.csrc = nullptr;
  }
  if (G.isrc) {
    delete G.isrc;
    G.isrc = nullptr;
  }
}

inline void request_stop() {
  if (G.stop_requested)
    return;
  G.stop_requested = true;
  if (!G.csrc && !G.isrc) {
    ev("S skipped");  // source already gone (freed at completion)
    return;
  }
  long exec_before = G.csrc ? G.csrc->executed : 0;
  const bool completed_before = G.n_completions > 0;
  ev("S tag=%d completed=%d", RCVR_TAG, G.n_completions);
  G.stop_active = true;
  {
    tag_guard tg(RCVR_TAG);
    if (G.csrc)
      G.csrc->src.request_stop();
    else
      G.isrc->request_stop();
  }
  G.stop_active = false;
  ev("S.");
  // C04: what do running leaves see on the token they were given?
  {
    std::vector<leaf_op_base*> snapshot = G.parked;
    for (auto* l : snapshot)
      ev("Lt %d %d %d", l->id, l->n, l->token_stopped());
  }
  if (G.csrc && completed_before && exec_before != G.csrc->executed) {
    // stop requested strictly after the outer completion ran a callback
    viol("M4 callback-ran-after-completion");
  }
  if (G.defer_free_src) {
    G.defer_free_src = false;
    free_source_now();
  }
}

// ---------------------------------------------------------------------------
// queries
// ---------------------------------------------------------------------------
inline const struct get_cookie_fn {
  template <class T>
  int operator()(const T& t) const noexcept {
    if constexpr (unifex::is_tag_invocable_v<get_cookie_fn, const T&>)
      return tag_invoke(*this, t);
    else
      return -1;
  }
} get_cookie{};

template <class T>
struct counting_allocator {
  using value_type = T;
  int id = 0;
  counting_allocator() = default;
  explicit counting_allocator(int i) noexcept : id(i) {}
  template <class U>
  counting_allocator(const counting_allocator<U>& o) noexcept : id(o.id) {}
  T* allocate(size_t n) {
    maybe_throw("alloc");
    void* p = ::operator new(n * sizeof(T), std::align_val_t(alignof(T) < 16 ? 16 : alignof(T)));
    G.allocs[p] = {n * sizeof(T), id};
    ++G.n_alloc;
    ev("A+ %d %zu", id, n * sizeof(T));
    return static_cast<T*>(p);
  }
  void deallocate(T* p, size_t n) noexcept {
    auto it = G.allocs.find(p);
    if (it == G.allocs.end()) {
      viol("M3 deallocate-unknown alloc=%d", id);
      return;
    }
    if (it->second.second != id)
      viol("M3 deallocate-foreign allocated-by=%d freed-by=%d", it->second.second, id);
    if (it->second.first != n * sizeof(T))
      viol("M3 deallocate-size-mismatch %zu vs %zu", it->second.first, n * sizeof(T));
    G.allocs.erase(it);
    ++G.n_dealloc;
    ev("A- %d", id);
    ::operator delete(p, std::align_val_t(alignof(T) < 16 ? 16 : alignof(T)));
  }
  template <class U>
  friend bool operator==(const counting_allocator& a, const counting_allocator<U>& b) noexcept {
    return a.id == b.id;
  }
  template <class U>
  friend bool operator!=(const counting_allocator& a, const counting_allocator<U>& b) noexcept {
    return a.id != b.id;
  }
};

template <class R>
int sched_id_of(const R& r) noexcept;

// ---------------------------------------------------------------------------
// M7: leaves
// ---------------------------------------------------------------------------
// values handed out by reference (LvalueValue leaves) live here until the end of the scenario
inline std::deque<val>& lvalue_store() {
  static std::deque<val> d;
  return d;
}

template <class VT>
struct leaf_values {
  template <template <typename...> class Variant, template <typename...> class Tuple>
  using apply = Variant<Tuple<VT>>;
};
struct novalue {};  // a sender with no value overload (stream cleanup senders complete with done)
template <>
struct leaf_values<novalue> {
  template <template <typename...> class Variant, template <typename...> class Tuple>
  using apply = Variant<>;
};
template <>
struct leaf_values<void> {
  template <template <typename...> class Variant, template <typename...> class Tuple>
  using apply = Variant<Tuple<>>;
};

// LvalueValue: the value is handed to the receiver as `const val&` (adaptors that keep it must copy; copies can be
// made to throw by fault injection) instead of as an rvalue
// InOp: the value lives inside this leaf's operation state and is handed out as an rvalue reference to it (a receiver
// that destroys the operation before it has taken the value reads a dead object: `val` scribbles its id on destruction)
template <class VT, unifex::_block::_enum B, bool SendsDone, bool Affine, bool IsSched, bool LvalueValue = false,
          bool InOp = false>
struct leaf : tracked<K_LEAFSND> {
  int id;
  explicit leaf(int i) noexcept : id(i) {}

  template <template <typename...> class Variant, template <typename...> class Tuple>
  using value_types = typename leaf_values<VT>::template apply<Variant, Tuple>;
  template <template <typename...> class Variant>
  using error_types = Variant<std::exception_ptr>;
  static constexpr bool sends_done = SendsDone;
  static constexpr unifex::blocking_kind blocking = B;
  static constexpr bool is_always_scheduler_affine = Affine;

  template <class R>
  struct op final : leaf_op_base, tracked<K_LEAFOP> {
    using tok_t = unifex::stop_token_type_t<R&>;
    struct cb {
      op* self;
      void operator()() noexcept { self->on_stop(); }
    };
    R rcvr;
    bool cb_live = false;
    unifex::manual_lifetime<typename tok_t::template callback_type<cb>> stopcb;
    std::conditional_t<InOp && !std::is_void_v<VT> && !std::is_same_v<VT, novalue>, std::optional<VT>, char> held{};

    template <class R2>
    op(int i, R2&& r) : rcvr((R2&&)r) {
      id = i;
    }
    op(op&&) = delete;
    ~op() {
      if (started && !completed) {
        viol("leaf-op-destroyed-while-running leaf=%d n=%d", id, n);
        auto it = std::find(G.parked.begin(), G.parked.end(), static_cast<leaf_op_base*>(this));
        if (it != G.parked.end())
          G.parked.erase(it);
        if (cb_live)
          stopcb.destruct();
      }
      ev("Lx %d %d", id, started ? n : -1);
    }

    int token_stopped() noexcept override {
      return unifex::get_stop_token(rcvr).stop_requested() ? 1 : 0;
    }

    void start() & noexcept {
      if (started) {
        viol("leaf-started-twice leaf=%d", id);
        return;
      }
      n = G.start_count[id]++;
      cfg = G.scn.get(id, n);
      if constexpr (B == unifex::_block::_enum::always_inline)
        cfg.mode = MODE_INLINE;
      if constexpr (Affine)
        cfg.tag = RCVR_TAG;
      if constexpr (IsSched)
        cfg.tag = id;
      started = true;
      ev("L+ %d %d tok=%d tag=%d sched=%d alloc=%d cookie=%d", id, n, token_stopped(), G.cur_tag,
         sched_id_of(rcvr), alloc_id_of(rcvr), get_cookie(rcvr));
      if (G.scn.stop_kind == STOP_IN_LEAF_START && G.scn.stop_a == id && G.scn.stop_b == n)
        request_stop();
      if (cfg.mode == MODE_INLINE) {
        int oc = cfg.outcome;
        if constexpr (!unifex::is_stop_never_possible_v<tok_t>) {
          // a stop-aware inline leaf looks at the token like stop_if_requested()
          if (cfg.react != REACT_IGNORE && SendsDone && token_stopped()) {
            stop_seen = true;
            ev("Ls %d %d", id, n);
            oc = OC_DONE;
          }
        }
        if constexpr (IsSched) {
          tag_guard tg(id);
          finish(oc);
        } else {
          finish(oc);
        }
        return;
      }
      parked = true;
      G.parked.push_back(this);
      if constexpr (!unifex::is_stop_never_possible_v<tok_t>) {
        cb_live = true;
        // may run the callback inline, which may complete and destroy *this
        stopcb.construct(unifex::get_stop_token(rcvr), cb{this});
      }
    }

    void on_stop() noexcept {
      stop_seen = true;
      ev("Ls %d %d", id, n);
      if (cfg.react == REACT_DONE_NOW && SendsDone && parked) {
        unpark();
        finish(OC_DONE);
      }
    }

    void unpark() noexcept {
      parked = false;
      auto it = std::find(G.parked.begin(), G.parked.end(), static_cast<leaf_op_base*>(this));
      if (it != G.parked.end())
        G.parked.erase(it);
    }

    void complete_now() noexcept override {
      unpark();
      int oc = (stop_seen && cfg.react == REACT_DONE_LATER && SendsDone) ? OC_DONE : cfg.outcome;
      tag_guard tg(cfg.tag);
      finish(oc);
    }

    void finish(int oc) noexcept {
      if (completed) {
        viol("leaf-completes-twice leaf=%d n=%d", id, n);
        return;
      }
      completed = true;
      if (cb_live) {
        cb_live = false;
        stopcb.destruct();
      }
      if (oc == OC_DONE && !SendsDone)
        oc = OC_VALUE;
      if constexpr (std::is_same_v<VT, novalue>) {
        if (oc == OC_VALUE)
          oc = OC_DONE;
      }
      // NB: after the set_xxx call *this may be destroyed
      if (oc == OC_VALUE) {
        UNIFEX_TRY {
          if constexpr (std::is_same_v<VT, novalue>) {
            // unreachable (mapped to done above)
          } else if constexpr (std::is_void_v<VT>) {
            ev("Lc %d %d v - tag=%d", id, n, G.cur_tag);
            unifex::set_value(std::move(rcvr));
          } else {
            int pid = fresh_id();
            ev("Lc %d %d v %d tag=%d", id, n, pid, G.cur_tag);
            if constexpr (LvalueValue) {
              // the value lives in the harness (not in this operation state, which the receiver may destroy)
              auto& keep = lvalue_store();
              keep.emplace_back(pid);
              unifex::set_value(std::move(rcvr), static_cast<const val&>(keep.back()));
            } else if constexpr (InOp) {
              held.emplace(pid);
              unifex::set_value(std::move(rcvr), std::move(*held));
            } else {
              unifex::set_value(std::move(rcvr), VT{pid});
            }
          }
        }
        UNIFEX_CATCH(...) {
          ev("Lc! %d", id);
          unifex::set_error(std::move(rcvr), std::current_exception());
        }
      } else if (oc == OC_ERROR) {
        int pid = fresh_id();
        ev("Lc %d %d e e%d tag=%d", id, n, pid, G.cur_tag);
        unifex::set_error(std::move(rcvr), std::make_exception_ptr(err_exc{pid}));
      } else {
        ev("Lc %d %d d - tag=%d", id, n, G.cur_tag);
        unifex::set_done(std::move(rcvr));
      }
    }

    template <class Q>
    static int alloc_id_of(const Q& r) noexcept {
      using A = unifex::remove_cvref_t<decltype(unifex::get_allocator(r))>;
      if constexpr (std::is_same_v<A, std::allocator<std::byte>>)
        return 0;
      else
        return unifex::get_allocator(r).id;
    }
  };

  template <class R>
  op<unifex::remove_cvref_t<R>> connect(R&& r) const& {
    maybe_throw("leaf-connect");
    ev("Lk %d", id);
    return op<unifex::remove_cvref_t<R>>{id, (R&&)r};
  }
};

// manual scheduler (M5) ------------------------------------------------------
struct msched {
  int k;
  using sender_t = leaf<void, unifex::_block::_enum::maybe, true, false, true>;
  sender_t schedule() const noexcept { return sender_t{k}; }
  friend bool operator==(msched a, msched b) noexcept { return a.k == b.k; }
  friend bool operator!=(msched a, msched b) noexcept { return a.k != b.k; }
};

template <class R>
int sched_id_of(const R& r) noexcept {
  if constexpr (unifex::is_tag_invocable_v<unifex::tag_t<unifex::get_scheduler>, const R&>) {
    using S = unifex::remove_cvref_t<decltype(unifex::get_scheduler(r))>;
    if constexpr (std::is_same_v<S, msched>)
      return unifex::get_scheduler(r).k;
    else
      return -2;  // some other scheduler type
  } else {
    return -1;  // no scheduler visible
  }
}

// ---------------------------------------------------------------------------
// M1: probe receiver
// ---------------------------------------------------------------------------
inline void destroy_op() {
  if (G.op) {
    void* p = G.op;
    G.op = nullptr;
    ev("OpX");
    G.op_destroy(p);
    G.arena.poison(G.scn.poison);
  }
}

inline void outer_completed(const char* ch, const std::string& payload) {
  ++G.n_completions;
  if (G.n_completions > 1)
    viol("M1 double-completion n=%d", G.n_completions);
  if (!G.started)
    viol("M1 completion-before-start");
  ev("O %s %s tag=%d instart=%d", ch, payload.c_str(), G.cur_tag, G.in_start ? 1 : 0);
  if (G.csrc && G.csrc->registered != 0)
    viol("M4 registration-outlives-completion n=%ld", G.csrc->registered);
  if (G.scn.destroy_in_completion)
    destroy_op();
  if (G.scn.free_src_at_completion) {
    if (G.stop_active)
      G.defer_free_src = true;
    else
      free_source_now();
  }
}

enum { TOK_COUNTING = 0, TOK_INPLACE = 1, TOK_NONE = 2 };

template <int TokKind>
struct probe_receiver : tracked<K_RCVR> {
  template <class... Vs>
  void set_value(Vs&&... vs) && {
    if (G.scn.rcvr_throw && G.n_completions == 0 && !thrown_once()) {
      thrown_once() = true;
      ev("O! throw");
      throw injected{-1};
    }
    outer_completed("v", describe_all(vs...));
  }
  template <class E>
  void set_error(E&& e) && noexcept {
    outer_completed("e", describe_all(e));
  }
  void set_done() && noexcept { outer_completed("d", "-"); }

  static bool& thrown_once() {
    static bool b = false;
    return b;
  }

  friend auto tag_invoke(unifex::tag_t<unifex::get_stop_token>, const probe_receiver&) noexcept {
    if constexpr (TokKind == TOK_COUNTING)
      return ctoken{G.csrc};
    else if constexpr (TokKind == TOK_INPLACE)
      return G.isrc->get_token();
    else
      return unifex::unstoppable_token{};
  }
  friend msched tag_invoke(unifex::tag_t<unifex::get_scheduler>, const probe_receiver&) noexcept {
    return msched{RCVR_SCHED};
  }
  friend counting_allocator<std::byte>
  tag_invoke(unifex::tag_t<unifex::get_allocator>, const probe_receiver&) noexcept {
    return counting_allocator<std::byte>{RCVR_ALLOC};
  }
  friend int tag_invoke(get_cookie_fn, const probe_receiver&) noexcept { return RCVR_COOKIE; }
};

// ---------------------------------------------------------------------------
// harness function objects
// ---------------------------------------------------------------------------
struct ret_val {};
struct ret_void {};

// fn(K, body): tracked callable; logs "F K args -> ..." ; body produces the result
template <class Body>
struct fn_t : tracked<K_FN> {
  int k;
  Body body;
  fn_t(int k_, Body b) : k(k_), body(std::move(b)) {}
  template <class... As>
  void pre(const As&... as) {
    ev("F %d %s", k, describe_all(as...).c_str());
    if (G.scn.stop_kind == STOP_IN_FN && G.scn.stop_a == k)
      request_stop();
    maybe_throw("fn");
  }
  template <class... As, class B = Body, std::enable_if_t<std::is_same_v<B, ret_val>, int> = 0>
  val call(As&&... as) {
    pre(as...);
    int id = fresh_id();
    ev("F> %d %d", k, id);
    return val{id};
  }
  template <class... As, class B = Body, std::enable_if_t<std::is_same_v<B, ret_void>, int> = 0>
  void call(As&&... as) {
    pre(as...);
  }
  template <class... As, class B = Body,
            std::enable_if_t<!std::is_same_v<B, ret_void> && !std::is_same_v<B, ret_val>, int> = 0>
  auto call(As&&... as) -> decltype(std::declval<B&>()((As&&)as...)) {
    pre(as...);
    return body((As&&)as...);
  }
  template <class... As>
  auto operator()(As&&... as) -> decltype(std::declval<fn_t&>().call((As&&)as...)) {
    return call((As&&)as...);
  }
  template <class... As>
  auto operator()(As&&... as) const -> decltype(std::declval<fn_t&>().call((As&&)as...)) {
    return const_cast<fn_t&>(*this).call((As&&)as...);
  }
};
template <class Body>
fn_t<Body> fn(int k, Body b) {
  return fn_t<Body>{k, std::move(b)};
}

// predicate for repeat_effect_until: true on the `until`-th call (counted per scenario)
struct pred_t : tracked<K_FN> {
  int k, until;
  pred_t(int k_, int u) : k(k_), until(u) {}
  bool operator()() {
    ev("F %d -", k);
    if (G.scn.stop_kind == STOP_IN_FN && G.scn.stop_a == k)
      request_stop();
    maybe_throw("fn");
    return ++G.pred_calls[k] >= until;
  }
  bool operator()() const { return const_cast<pred_t&>(*this)(); }
};
inline pred_t pred(int k, int until) {
  return pred_t{k, until};
}

// ---------------------------------------------------------------------------
// driver
// ---------------------------------------------------------------------------
inline leaf_op_base* choose() {
  if (G.parked.empty())
    return nullptr;
  leaf_op_base* best = nullptr;
  size_t bestp = ~size_t(0);
  for (auto* l : G.parked) {
    size_t p = G.scn.prio.size();
    for (size_t i = 0; i < G.scn.prio.size(); ++i)
      if (G.scn.prio[i] == l->id) {
        p = i;
        break;
      }
    // unknown ids keep their parking order after the listed ones
    if (best == nullptr || p < bestp) {
      best = l;
      bestp = p;
    }
  }
  return best;
}

inline void drive() {
  for (;;) {
    if (G.scn.stop_kind == STOP_BETWEEN && G.scn.stop_a == G.step)
      request_stop();
    leaf_op_base* l = choose();
    if (!l)
      break;
    ++G.step;
    ev("D %d %d", l->id, l->n);
    l->complete_now();
    if (G.step > 10000) {
      viol("driver-step-limit");
      break;
    }
  }
}

struct traits_info {
  int blocking, sends_done, affine;
};

// unifex::blocking(s) prefers a tag_invoke customisation; finally's customisation does not
// compile (its body finds the static member `blocking`), so prefer the static member.
template <class S>
unifex::_block::_enum static_blocking_or_runtime(const S& s) {
  if constexpr (unifex::_block::_has_blocking<S>::value)
    return S::blocking;
  else
    return unifex::blocking(s);
}

template <int TokKind, bool LvOk, class MK>
void run_program(MK&& mk) {
  const scenario& sc = G.scn;
  if constexpr (TokKind == TOK_COUNTING)
    G.csrc = new csource;
  else if constexpr (TokKind == TOK_INPLACE)
    G.isrc = new unifex::inplace_stop_source;
  probe_receiver<TokKind>::thrown_once() = false;
  {
    tag_guard tg0(RCVR_TAG);
    UNIFEX_TRY {
      if (sc.stop_kind == STOP_PRE_CONNECT)
        request_stop();
      auto s = mk();
      using S = decltype(s);
      ev("P blocking=%d sends_done=%d affine=%d", (int)static_blocking_or_runtime(s),
         (int)unifex::sender_traits<S>::sends_done,
         (int)unifex::sender_traits<S>::is_always_scheduler_affine);
      using R = probe_receiver<TokKind>;
      auto run_with = [&](auto connect_it) {
        using Op = decltype(connect_it());
        void* mem = G.arena.get(sizeof(Op), alignof(Op), sc.poison);
        Op* op = nullptr;
        UNIFEX_TRY { op = ::new (mem) Op(connect_it()); }
        UNIFEX_CATCH(const injected& e) {
          ev("X connect inj%ld", e.k);
          return;
        }
        G.op = op;
        G.op_destroy = +[](void* p) { static_cast<Op*>(p)->~Op(); };
        ev("K");
        if (sc.nostart) {
          destroy_op();
          return;
        }
        if (sc.stop_kind == STOP_PRE_START)
          request_stop();
        G.started = true;
        G.in_start = true;
        unifex::start(*op);  // op may be gone after this
        G.in_start = false;
        ev("R");
        drive();
        if (sc.stop_kind == STOP_AFTER_END || (sc.stop_kind != STOP_NONE && !G.stop_requested))
          request_stop();
        if (G.n_completions == 0)
          ev("PENDING");
        destroy_op();
      };
      if constexpr (LvOk) {
        if (sc.lvalue) {
          ev("CL");
          run_with([&]() { return unifex::connect(s, R{}); });
        } else {
          run_with([&]() { return unifex::connect(std::move(s), R{}); });
        }
      } else {
        run_with([&]() { return unifex::connect(std::move(s), R{}); });
      }
    }
    UNIFEX_CATCH(const injected& e) { ev("X mk inj%ld", e.k); }
  }
  // quiescence: drain anything still parked (detached work)
  drive();
#if !UNIFEX_NO_ASYNC_STACKS
  // M13: async-stack bookkeeping must be balanced at a quiescent point on this thread
  if (unifex::tryGetCurrentAsyncStackRoot() != nullptr)
    viol("M13 async-stack-root-left-active");
#endif
  G.arena.release();
  free_source_now();
  lvalue_store().clear();
  // end-of-scenario ledgers (M2, M3)
  if (!G.live.empty()) {
    int cnt[K_NKINDS] = {};
    for (auto& kv : G.live)
      ++cnt[kv.second.kind];
    std::string s;
    for (int i = 0; i < K_NKINDS; ++i)
      if (cnt[i])
        s += std::string(kind_name(i)) + "=" + std::to_string(cnt[i]) + " ";
    viol("M2 leak %s", s.c_str());
  }
  if (!G.allocs.empty())
    viol("M3 allocation-leak n=%zu", G.allocs.size());
  ev("END tp=%ld constructed=%ld", G.throw_points, G.serial);
}

// registry -------------------------------------------------------------------
struct prog_entry {
  int id;
  void (*run)();
};
inline std::vector<prog_entry>& registry() {
  static std::vector<prog_entry> r;
  return r;
}
struct registrar {
  registrar(int id, void (*run)()) { registry().push_back({id, run}); }
};

// ---------------------------------------------------------------------------
// streams (C13): a probe stream whose next()/cleanup() senders are manual leaves
//   next leaf id = 10*sid+1 (value flavour), cleanup leaf id = 10*sid+2 (void flavour, completes with done)
// ---------------------------------------------------------------------------
struct probe_stream : tracked<K_MISC> {
  int sid;
  explicit probe_stream(int s) noexcept : sid(s) {}
  using next_t = leaf<val, unifex::_block::_enum::maybe, true, false, false, false, true>;  // element lives in the next-op
  using cleanup_t = leaf<novalue, unifex::_block::_enum::maybe, true, false, false>;
  next_t next() noexcept {
    ev("Sn %d", sid);
    return next_t{sid * 10 + 1};
  }
  cleanup_t cleanup() noexcept {
    ev("Sc %d", sid);
    return cleanup_t{sid * 10 + 2};
  }
};

// filter predicate: k-th call (per scenario) returns bit (k mod 16) of mask
struct fpred_t : tracked<K_FN> {
  int k;
  unsigned mask;
  fpred_t(int k_, unsigned m) : k(k_), mask(m) {}
  template <class... As>
  bool operator()(const As&... as) {
    ev("F %d %s", k, describe_all(as...).c_str());
    if (G.scn.stop_kind == STOP_IN_FN && G.scn.stop_a == k)
      request_stop();
    maybe_throw("fn");
    int n = G.pred_calls[k]++;
    return (mask >> (n % 16)) & 1u;
  }
  template <class... As>
  bool operator()(const As&... as) const {
    return const_cast<fpred_t&>(*this)(as...);
  }
};
inline fpred_t fpred(int k, unsigned mask) {
  return fpred_t{k, mask};
}
// the same predicate taking its arguments *by value*: an adaptor that forwards the element to the predicate instead of
// showing it a const view hands a moved-from element downstream (printed as ~id)
struct fpred_bv_t : fpred_t {
  using fpred_t::fpred_t;
  bool operator()(val v) { return fpred_t::operator()(static_cast<const val&>(v)); }
  bool operator()(val v) const { return const_cast<fpred_bv_t&>(*this)(std::move(v)); }
};
inline fpred_bv_t fpred_bv(int k, unsigned mask) {
  return fpred_bv_t{k, mask};
}

}  // namespace vf
