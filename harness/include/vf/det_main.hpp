// main() for deterministic harness programs: reads scenario lines, runs them, prints logs.
#pragma once
#include <vf/det.hpp>

#include <csignal>
#include <fstream>
#include <iostream>
#include <sstream>

extern "C" void __asan_on_error() {
  vf::dump_partial();
}
// det mode: hook points in the library only count (single thread, nothing to perturb)
namespace vf {
inline unsigned long g_hook_hits = 0;
}
extern "C" void unifex_verif_point(unsigned) noexcept {
  ++vf::g_hook_hits;
}

namespace vf {

inline void crash_handler(int sig) {
  dump_partial();
  char b[64];
  int n = snprintf(b, sizeof b, "#SIGNAL %d\n", sig);
  write_all(1, b, n);
  signal(sig, SIG_DFL);
  raise(sig);
}

// per-scenario watchdog: a scenario runs for milliseconds; one that is still running after VF_SCENARIO_TIMEOUT seconds
// (default 45) is stuck (e.g. spinning on a lock in freed memory).  Take a backtrace of ourselves with gdb for the
// violation key and leave, so that the runner does not have to wait for its own (much longer) timeout.
inline void hang_handler(int) {
  dump_partial();
  const char h[] = "#HANG\n";
  write_all(1, h, sizeof h - 1);
  const char m[] = "\n[vf] TIMEOUT backtrace:\n";
  write_all(2, m, sizeof m - 1);
  char cmd[160];
  snprintf(cmd, sizeof cmd, "gdb -p %d -batch -ex 'thread apply all bt 14' 1>&2 2>/dev/null", (int)getpid());
  if (system(cmd) != 0) {
    const char f[] = "(gdb failed)\n";
    write_all(2, f, sizeof f - 1);
  }
  _exit(91);
}

inline std::vector<int> ints(const std::string& s, char sep) {
  std::vector<int> r;
  std::stringstream ss(s);
  std::string t;
  while (std::getline(ss, t, sep))
    if (!t.empty())
      r.push_back(std::atoi(t.c_str()));
  return r;
}

inline leaf_cfg parse_cfg(const std::string& s) {
  auto v = ints(s, ',');
  leaf_cfg c;
  if (v.size() > 0) c.outcome = v[0];
  if (v.size() > 1) c.mode = v[1];
  if (v.size() > 2) c.react = v[2];
  if (v.size() > 3) c.tag = v[3];
  return c;
}

inline bool parse_scenario(const std::string& line, scenario& sc) {
  std::stringstream ss(line);
  sc = scenario{};
  if (!(ss >> sc.prog >> sc.sid))
    return false;
  std::string tok;
  while (ss >> tok) {
    auto eq = tok.find('=');
    if (eq == std::string::npos)
      continue;
    std::string k = tok.substr(0, eq), v = tok.substr(eq + 1);
    sc.kv[k] = v;
    if (k == "dic") sc.destroy_in_completion = v == "1";
    else if (k == "fsc") sc.free_src_at_completion = v == "1";
    else if (k == "lv") sc.lvalue = v == "1";
    else if (k == "ns") sc.nostart = v == "1";
    else if (k == "rt") sc.rcvr_throw = v == "1";
    else if (k == "throw") sc.throw_at = std::atol(v.c_str());
    else if (k == "poison") sc.poison = std::atoi(v.c_str());
    else if (k == "stop") {
      auto x = ints(v, ':');
      sc.stop_kind = x.size() > 0 ? x[0] : 0;
      sc.stop_a = x.size() > 1 ? x[1] : 0;
      sc.stop_b = x.size() > 2 ? x[2] : 0;
    } else if (k == "def") sc.def = parse_cfg(v);
    else if (k == "prio") sc.prio = ints(v, ',');
    else if (k == "L") {
      auto c = v.find(':');
      auto idn = v.substr(0, c);
      auto d = idn.find('.');
      int id = std::atoi(idn.substr(0, d).c_str());
      int n = d == std::string::npos ? -1 : std::atoi(idn.substr(d + 1).c_str());
      sc.cfg[{id, n}] = parse_cfg(v.substr(c + 1));
    }
  }
  return true;
}

inline int det_main(int argc, char** argv) {
#if defined(__SANITIZE_ADDRESS__)
  // AddressSanitizer's own SEGV/BUS/FPE/ILL handler prints the faulting stack (and calls __asan_on_error, which dumps
  // the partial log): do not replace it
  for (int s : {SIGABRT})
    signal(s, crash_handler);
#else
  for (int s : {SIGSEGV, SIGBUS, SIGABRT, SIGFPE, SIGILL})
    signal(s, crash_handler);
#endif
  signal(SIGALRM, hang_handler);
  const char* to_env = getenv("VF_SCENARIO_TIMEOUT");
  const unsigned scenario_timeout = to_env ? (unsigned)atoi(to_env) : 45u;
  std::istream* in = &std::cin;
  std::ifstream f;
  if (argc > 1) {
    f.open(argv[1]);
    in = &f;
  }
  long skip_until = argc > 2 ? std::atol(argv[2]) : -1;  // resume after this many lines
  std::string line;
  long lineno = 0;
  std::map<int, void (*)()> progs;
  for (auto& e : registry())
    progs[e.id] = e.run;
  std::string out;
  while (std::getline(*in, line)) {
    ++lineno;
    if (lineno <= skip_until)
      continue;
    if (line.empty() || line[0] == '#')
      continue;
    G.reset();
    if (!parse_scenario(line, G.scn)) {
      fprintf(stderr, "bad scenario line %ld\n", lineno);
      return 3;
    }
    auto it = progs.find(G.scn.prog);
    if (it == progs.end()) {
      fprintf(stderr, "unknown program %d\n", G.scn.prog);
      return 3;
    }
    char hdr[128];
    int n = snprintf(hdr, sizeof hdr, "#B %d %ld %ld\n", G.scn.prog, G.scn.sid, lineno);
    out.append(hdr, n);
    // flush what we have: a crash must leave the "#B" marker of the dying scenario
    write_all(1, out.data(), out.size());
    out.clear();
    alarm(scenario_timeout);
    it->second();
    alarm(0);
    out.append(G.log);
    n = snprintf(hdr, sizeof hdr, "#E %d %ld\n", G.scn.prog, G.scn.sid);
    out.append(hdr, n);
  }
  write_all(1, out.data(), out.size());
  const char done[] = "#DONE\n";
  write_all(1, done, sizeof done - 1);
  return 0;
}
}  // namespace vf
