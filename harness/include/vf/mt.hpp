// Multi-threaded stress toolkit: hook runtime (perturbation), light monitors, reporting.
// Monitors use relaxed atomics / thread-local state only, so they add no happens-before
// edges that could hide a race from ThreadSanitizer (DESIGN.md section 3).
#pragma once

#include <atomic>
#include <chrono>
#include <cstdarg>
#include <cstdint>
#include <cstdio>
#include <cstdlib>
#include <cstring>
#include <map>
#include <mutex>
#include <string>
#include <thread>
#include <vector>

#include <pthread.h>
#include <sched.h>
#include <time.h>
#include <unistd.h>

namespace vf {
namespace mt {

constexpr unsigned MAX_SITES = 512;

struct rng {
  uint64_t s;
  explicit rng(uint64_t seed) : s(seed * 0x9E3779B97F4A7C15ull + 0x1234567ull) {
    if (!s)
      s = 1;
  }
  uint64_t next() {
    s ^= s << 13;
    s ^= s >> 7;
    s ^= s << 17;
    return s;
  }
  uint32_t below(uint32_t n) { return n ? (uint32_t)(next() % n) : 0; }
  bool chance(uint32_t num, uint32_t den) { return below(den) < num; }
};

struct globals {
  std::atomic<uint64_t> hits[MAX_SITES];
  std::atomic<int> perturb{0};       // 0 off, 1 on
  std::atomic<unsigned> victim{0};   // site delayed with high probability
  std::atomic<uint64_t> seed{1};
  std::atomic<uint64_t> thread_counter{0};
  std::atomic<uint64_t> violations{0};
  std::mutex mu;  // only taken on the (cold) violation path and at exit
  std::vector<std::string> viol_lines;
  std::map<std::string, long> stats;
  std::vector<std::string> samples;
};
inline globals& g() {
  static globals x;
  return x;
}

// per-thread visit counters (lets a harness ask "did my call pass through site N?")
inline uint32_t* tl_hits() {
  thread_local uint32_t h[MAX_SITES] = {};
  return h;
}

inline rng& trng() {
  thread_local rng r(g().seed.load(std::memory_order_relaxed) * 1000003ull +
                     g().thread_counter.fetch_add(1, std::memory_order_relaxed) + 17);
  return r;
}

inline void spin_ns(uint64_t ns) {
  auto t0 = std::chrono::steady_clock::now();
  while ((uint64_t)std::chrono::duration_cast<std::chrono::nanoseconds>(std::chrono::steady_clock::now() - t0)
             .count() < ns) {
#if defined(__x86_64__)
    __builtin_ia32_pause();
#endif
  }
}

inline void perturb_here(bool victim) {
  rng& r = trng();
  uint32_t x = r.below(1000);
  if (victim) {
    if (x < 500) {
      timespec ts{0, (long)(20000 + r.below(180000))};
      nanosleep(&ts, nullptr);
    } else if (x < 800) {
      spin_ns(1000 + r.below(50000));
    } else if (x < 950) {
      sched_yield();
    }
    return;
  }
  if (x < 6) {
    timespec ts{0, (long)(50000 + r.below(150000))};
    nanosleep(&ts, nullptr);
  } else if (x < 40) {
    spin_ns(500 + r.below(20000));
  } else if (x < 90) {
    sched_yield();
  }
}

inline void violation(const char* key, const char* fmt, ...) {
  char buf[2048];
  va_list ap;
  va_start(ap, fmt);
  vsnprintf(buf, sizeof buf, fmt, ap);
  va_end(ap);
  g().violations.fetch_add(1, std::memory_order_relaxed);
  std::lock_guard<std::mutex> lk(g().mu);
  if (g().viol_lines.size() < 200)
    g().viol_lines.push_back(std::string(key) + " :: " + buf);
}

inline void stat_add(const char* name, long v) {
  std::lock_guard<std::mutex> lk(g().mu);
  g().stats[name] += v;
}
inline void sample(const std::string& s) {
  std::lock_guard<std::mutex> lk(g().mu);
  if (g().samples.size() < 8)
    g().samples.push_back(s);
}

// per-thread counters merged at the end (no synchronisation while running)
struct counters {
  std::map<std::string, long> c;
  void add(const char* k, long v = 1) { c[k] += v; }
  ~counters() {
    std::lock_guard<std::mutex> lk(g().mu);
    for (auto& kv : c)
      g().stats[kv.first] += kv.second;
  }
};

inline void report() {
  std::lock_guard<std::mutex> lk(g().mu);
  for (auto& kv : g().stats)
    printf("STAT %s %ld\n", kv.first.c_str(), kv.second);
  for (unsigned i = 0; i < MAX_SITES; ++i) {
    uint64_t h = g().hits[i].load(std::memory_order_relaxed);
    if (h)
      printf("HOOK %u %llu\n", i, (unsigned long long)h);
  }
  for (auto& s : g().samples)
    printf("SAMPLE %s\n", s.c_str());
  for (auto& v : g().viol_lines)
    printf("VIOL %s\n", v.c_str());
  printf("DONE violations=%llu\n", (unsigned long long)g().violations.load());
  fflush(stdout);
}

// spinning barrier (sense reversing); used to release racing threads together
struct barrier {
  std::atomic<int> count{0};
  std::atomic<int> gen{0};
  int n;
  explicit barrier(int n_) : n(n_) {}
  void wait() {
    int gnow = gen.load(std::memory_order_acquire);
    if (count.fetch_add(1, std::memory_order_acq_rel) == n - 1) {
      count.store(0, std::memory_order_relaxed);
      gen.fetch_add(1, std::memory_order_release);
    } else {
      int spins = 0;
      while (gen.load(std::memory_order_acquire) == gnow) {
        if (++spins > 2000) {
          sched_yield();
          spins = 0;
        }
      }
    }
  }
};

// M9: mutual-exclusion / overlap monitor
struct owner_monitor {
  std::atomic<uint64_t> owner{0};
  std::atomic<uint64_t> entries{0};
  // returns false on overlap
  bool enter(uint64_t id) {
    uint64_t prev = owner.exchange(id, std::memory_order_relaxed);
    entries.fetch_add(1, std::memory_order_relaxed);
    return prev == 0;
  }
  bool exit(uint64_t id) {
    uint64_t prev = owner.exchange(0, std::memory_order_relaxed);
    return prev == id;
  }
};

struct args {
  uint64_t seed = 1;
  long iters = 1000;
  int threads = 4;
  int perturb = 1;
  unsigned victim = 0;
  std::string mode;
  std::map<std::string, std::string> kv;
  long geti(const char* k, long d) const {
    auto it = kv.find(k);
    return it == kv.end() ? d : atol(it->second.c_str());
  }
};

inline args parse_args(int argc, char** argv) {
  args a;
  for (int i = 1; i < argc; ++i) {
    std::string s = argv[i];
    auto eq = s.find('=');
    if (eq == std::string::npos)
      continue;
    std::string k = s.substr(0, eq), v = s.substr(eq + 1);
    a.kv[k] = v;
    if (k == "seed") a.seed = strtoull(v.c_str(), nullptr, 10);
    else if (k == "iters") a.iters = atol(v.c_str());
    else if (k == "threads") a.threads = atoi(v.c_str());
    else if (k == "perturb") a.perturb = atoi(v.c_str());
    else if (k == "victim") a.victim = (unsigned)atoi(v.c_str());
    else if (k == "mode") a.mode = v;
  }
  g().seed.store(a.seed);
  g().perturb.store(a.perturb);
  g().victim.store(a.victim);
  return a;
}

}  // namespace mt
}  // namespace vf

#if !defined(VF_NO_HOOK_DEFINITION)
extern "C" void unifex_verif_point(unsigned site) noexcept {
  auto& G = vf::mt::g();
  if (site < vf::mt::MAX_SITES) {
    G.hits[site].fetch_add(1, std::memory_order_relaxed);
    ++vf::mt::tl_hits()[site];
  }
  if (G.perturb.load(std::memory_order_relaxed))
    vf::mt::perturb_here(site == G.victim.load(std::memory_order_relaxed));
}
#endif
