"""Generator of stream pipelines (C13): spec trees over a probe stream whose next/cleanup are manual leaves."""
import random

from . import expr_model as M


class SGen:
    def __init__(self, rng, max_depth=3):
        self.rng = rng
        self.max_depth = max_depth
        self.reset()

    def reset(self):
        self.n_sid = 0
        self.n_fn = 0
        self.n_sched = 0
        self.no_erase = 0

    def sid(self):
        self.n_sid += 1
        return self.n_sid

    def fn(self):
        self.n_fn += 1
        return 9 + self.n_fn

    def sched(self):
        self.n_sched += 1
        return 99 + self.n_sched

    def stream(self, depth):
        r = self.rng
        if depth <= 0 or r.random() < 0.2:
            return {"s": "probe", "sid": self.sid()}
        k = r.choice(["transform", "transform", "filter", "filter", "via_stream", "type_erase", "take_until",
                      "take_until", "stop_immediately", "stop_immediately"])
        if k == "transform":
            return {"s": "transform", "src": self.stream(depth - 1), "fn": self.fn()}
        if k == "filter":
            d = {"s": "filter", "src": self.stream(depth - 1), "fn": self.fn(), "mask": r.randrange(1, 1 << 16)}
            # half of the predicates take the element by value (derived from the mask so that the random stream, and
            # with it every other choice of the seed, stays what it was): filter_stream must hand the predicate a
            # const view and still deliver the intact element downstream
            d["bv"] = (d["mask"] >> 7) & 1
            return d
        if k == "via_stream":
            return {"s": "via_stream", "src": self.stream(depth - 1), "sched": self.sched()}
        if k == "type_erase" and self.no_erase:
            k = "transform"   # type_erase needs get_scheduler from its receiver; stop_immediately's does not answer it
            return {"s": "transform", "src": self.stream(depth - 1), "fn": self.fn()}
        if k == "type_erase":
            return {"s": "type_erase", "src": self.stream(depth - 1)}
        if k == "stop_immediately":
            self.no_erase += 1
            src = self.stream(depth - 1)
            self.no_erase -= 1
            return {"s": "stop_immediately", "src": src}
        return {"s": "take_until", "src": self.stream(depth - 1), "trig": {"s": "probe", "sid": self.sid()}}

    def program(self):
        self.reset()
        st = self.stream(self.max_depth)
        if self.rng.random() < 0.7:
            return {"op": "reduce_stream", "stream": st, "init": 900, "fn": self.fn()}
        return {"op": "for_each", "stream": st, "fn": self.fn()}


def generate(seed, n, max_depth=3):
    rng = random.Random(seed * 31 + 7)
    g = SGen(rng, max_depth)
    out = []
    for i in range(n):
        spec = g.program()
        r = rng.random()
        tok = 0 if r < 0.55 else (1 if r < 0.9 else 2)
        out.append((1000 + i + 1, spec, tok, False))
    return out


def scenarios_for(spec, tokkind, rng, budget):
    """scenarios for a stream program: per probe stream a length 0..5, an end kind (done / error), leaf modes,
    cleanup outcomes, trigger timing (through driver priorities) and stop injection at every position"""
    from . import gen_expr
    lvs = gen_expr.leaves(spec)
    nexts = [l for l in lvs if "stream_next" in l]
    cleans = [l for l in lvs if "stream_cleanup" in l]
    scheds = [l for l in lvs if l.get("is_sched")]
    fnids = gen_expr.fns(spec)
    ids = [l["id"] for l in lvs]
    stoppable = tokkind != M.TOK_NONE
    out = []

    def base(mode, react, end_kind_for, lens):
        cfg = {}
        for l in nexts:
            ln = lens[l["id"]]
            for n in range(ln):
                cfg[(l["id"], n)] = (0, mode if rng.random() < 0.8 else 1 - mode, react, rng.choice([0, 3, 5]))
            cfg[(l["id"], ln)] = (end_kind_for[l["id"]], mode, react, 0)
            # anything asked for after the end keeps saying done
            cfg[(l["id"], -1)] = (2, mode, react, 0)
        for l in cleans:
            cfg[(l["id"], -1)] = (1 if rng.random() < 0.1 else 2, mode if rng.random() < 0.7 else 1 - mode, 0, 0)
        for l in scheds:
            cfg[(l["id"], -1)] = (0, rng.choice([0, 1]), rng.choice([0, 1, 2]), 0)
        return cfg

    def add(sc):
        i = len(out) + rng.randrange(4)
        sc["dic"] = i & 1
        sc["fsc"] = (i >> 1) & 1 if stoppable else 0
        sc["poison"] = i % 3
        out.append(sc)

    guard = 0
    while len(out) < budget and guard < budget * 4:
        guard += 1
        lens = {l["id"]: rng.choice([0, 1, 2, 3, 3, 4, 5]) for l in nexts}
        endk = {l["id"]: (1 if rng.random() < 0.2 else 2) for l in nexts}
        mode = rng.choice([0, 1, 1])
        react = rng.choice([1, 1, 2, 0]) if stoppable else 0
        p = list(ids)
        rng.shuffle(p)
        sc = {"def": (0, mode, react, 0), "prio": p, "cfg": base(mode, react, endk, lens)}
        if stoppable and rng.random() < 0.5:
            kind = rng.choice([M.STOP_PRE_START, M.STOP_BETWEEN, M.STOP_BETWEEN, M.STOP_BETWEEN, M.STOP_IN_LEAF_START,
                               M.STOP_IN_FN, M.STOP_AFTER_END])
            if kind == M.STOP_BETWEEN:
                sc["stop"] = (kind, rng.randrange(2 * sum(lens.values()) + 4), 0)
            elif kind == M.STOP_IN_LEAF_START and ids:
                sc["stop"] = (kind, rng.choice(ids), rng.randrange(4))
            elif kind == M.STOP_IN_FN and fnids:
                sc["stop"] = (kind, rng.choice(fnids), 0)
            else:
                sc["stop"] = (kind, 0, 0)
        add(sc)
    return out
