"""Runner + offline checker for generated sender expressions (C01 C02 C04 C05 C11 C12)."""
import hashlib
import itertools
import json
import os
import random
import re
import tempfile
import time

from . import core, gen_expr
from . import expr_model as M

# which property owns which kind of disagreement ------------------------------
ONLINE_OWNER = [
    ("M1 ", "C01"), ("leaf-completes-twice", "C01"), ("leaf-started-twice", "C01"),
    ("M2 ", "C02"), ("M3 ", "C02"), ("ledger ", "C02"), ("leaf-op-destroyed-while-running", "C02"),
    ("M4 ", "C04"), ("driver-step-limit", "C01"), ("M13 ", "C20"),
]


def online_owner(text):
    for pfx, prop in ONLINE_OWNER:
        if text.startswith(pfx):
            return prop
    return "C02"


# ---------------------------------------------------------------------------
# scenarios
# ---------------------------------------------------------------------------
def scn_line(pid, sid, sc):
    parts = ["%d %d" % (pid, sid)]
    for k in ("dic", "fsc", "lv", "ns", "rt", "poison", "throw"):
        if sc.get(k):
            parts.append("%s=%d" % (k, sc[k]))
    st = sc.get("stop", (0, 0, 0))
    if st[0]:
        parts.append("stop=%d:%d:%d" % tuple(st))
    parts.append("def=%d,%d,%d,%d" % tuple(sc.get("def", (0, 0, 0, 0))))
    if sc.get("prio"):
        parts.append("prio=" + ",".join(str(x) for x in sc["prio"]))
    for (lid, n), c in sorted(sc.get("cfg", {}).items()):
        parts.append("L=%d%s:%d,%d,%d,%d" % ((lid, "" if n < 0 else ".%d" % n) + tuple(c)))
    return " ".join(parts)


def scenarios_for(spec, tokkind, rng, budget, want_faults=False):
    """Return list of scenario dicts: corner cases first, then a seeded sample."""
    lvs = gen_expr.leaves(spec)
    ids = [l["id"] for l in lvs]
    fnids = gen_expr.fns(spec)
    stoppable = tokkind != M.TOK_NONE
    out = []

    def flags(sc, i):
        sc["dic"] = (i >> 0) & 1
        sc["fsc"] = (i >> 1) & 1 if stoppable else 0
        sc["poison"] = i % 3
        return sc

    def add(sc):
        out.append(flags(sc, len(out) + rng.randrange(4)))

    tags = [0, 3, 5]
    # A: all inline
    add({"def": (0, 0, 0, 0)})
    add({"def": (0, 0, 1, 0)})
    # B: all deferred, several orders
    perms = [list(ids), list(reversed(ids))]
    for _ in range(3):
        p = list(ids)
        rng.shuffle(p)
        perms.append(p)
    for p in perms:
        add({"def": (0, 1, rng.choice([0, 1, 2]), rng.choice(tags)), "prio": p})
    # C/D: each leaf failing / done, inline and deferred
    for l in ids:
        for oc in (1, 2):
            for mode in (0, 1):
                p = list(ids)
                rng.shuffle(p)
                add({"def": (0, rng.choice([0, 1]), rng.choice([0, 1, 2]), 0), "prio": p,
                     "cfg": {(l, -1): (oc, mode, rng.choice([0, 1, 2]), rng.choice(tags))}})
    # never started
    add({"def": (0, 1, 1, 0), "ns": 1})
    # E: stop injection at every position
    if stoppable:
        nsteps = len(ids) + 2
        for react in (1, 2, 0):
            stops = [(M.STOP_PRE_CONNECT, 0, 0), (M.STOP_PRE_START, 0, 0), (M.STOP_AFTER_END, 0, 0)]
            stops += [(M.STOP_BETWEEN, k, 0) for k in range(nsteps)]
            stops += [(M.STOP_IN_LEAF_START, l, n) for l in ids for n in (0, 1)]
            stops += [(M.STOP_IN_FN, f, 0) for f in fnids]
            for st in stops:
                if st[0] == M.STOP_IN_LEAF_START and st[2] == 1 and rng.random() < 0.6:
                    continue
                p = list(ids)
                rng.shuffle(p)
                mode = rng.choice([1, 1, 1, 0])
                sc = {"def": (0, mode, react, rng.choice(tags)), "prio": p, "stop": st}
                if rng.random() < 0.3 and ids:
                    l = rng.choice(ids)
                    sc["cfg"] = {(l, -1): (rng.choice([0, 1, 2]), rng.choice([0, 1]), rng.choice([0, 1, 2]), 0)}
                add(sc)
    # F: random mixes
    while len(out) < budget:
        p = list(ids)
        rng.shuffle(p)
        sc = {"def": (rng.choice([0, 0, 0, 1, 2]), rng.choice([0, 1, 1]), rng.choice([0, 1, 2]),
                      rng.choice(tags)), "prio": p, "cfg": {}}
        for l in ids:
            if rng.random() < 0.5:
                n = rng.choice([-1, -1, 0, 1])
                sc["cfg"][(l, n)] = (rng.choice([0, 0, 1, 2]), rng.choice([0, 1]), rng.choice([0, 1, 2]),
                                     rng.choice(tags))
        if stoppable and rng.random() < 0.5:
            kind = rng.choice([M.STOP_PRE_START, M.STOP_BETWEEN, M.STOP_BETWEEN, M.STOP_IN_LEAF_START,
                               M.STOP_IN_FN, M.STOP_AFTER_END])
            if kind == M.STOP_BETWEEN:
                st = (kind, rng.randrange(len(ids) + 2), 0)
            elif kind == M.STOP_IN_LEAF_START and ids:
                st = (kind, rng.choice(ids), rng.choice([0, 0, 1]))
            elif kind == M.STOP_IN_FN and fnids:
                st = (kind, rng.choice(fnids), 0)
            else:
                st = (M.STOP_PRE_START, 0, 0)
            sc["stop"] = st
        add(sc)
    if len(out) > budget:
        # keep the corner cases at the front, sample the rest
        head, tail = out[:8], out[8:]
        rng.shuffle(tail)
        out = head + tail[:max(0, budget - 8)]
    return out


# ---------------------------------------------------------------------------
# log parsing
# ---------------------------------------------------------------------------
def parse_output(text):
    """-> dict sid -> (lines, complete?) ; also crash marker info"""
    res = {}
    cur = None
    crashed = None
    for ln in text.split("\n"):
        if ln.startswith("#B "):
            p = ln.split()
            cur = (int(p[1]), int(p[2]), int(p[3]))
            res[cur[1]] = {"lines": [], "complete": False, "lineno": cur[2]}
        elif ln.startswith("#E "):
            if cur:
                res[cur[1]]["complete"] = True
            cur = None
        elif ln.startswith("#PARTIAL"):
            pass
        elif ln.startswith("#CRASH") or ln.startswith("#SIGNAL"):
            crashed = cur
        elif ln.startswith("#DONE"):
            pass
        elif cur is not None and ln:
            res[cur[1]]["lines"].append(ln)
    last = cur
    return res, last


SKIP = ("Lx", "Lk", "A+", "A-", "T", "END", "P", "OpX", "CL", "F>", "Lc!", "O!", "Sn", "Sc", "Z")


_TAG = re.compile(r" tag=\d+")


def comparable(lines):
    """drop unjudged event kinds; inside a stop-request window (S .. S.) context tags are not compared: an
    algorithm may deliver a completion after its stop callback returned (under the requester's context) or from
    inside the leaf that reacted to the stop (under that leaf's context) - both are legitimate"""
    out = []
    in_stop = 0
    for l in lines:
        k = l.split(" ", 1)[0]
        if k in SKIP or l.startswith("V "):
            continue
        if k == "S" and l != "S skipped":
            in_stop += 1
            out.append(l)
            continue
        if k == "S.":
            in_stop = max(0, in_stop - 1)
            out.append(l)
            continue
        out.append(_TAG.sub(" tag=*", l) if in_stop else l)
    return out


def segments(lines):
    segs = [[]]
    for l in lines:
        k = l.split(" ", 1)[0]
        if k in ("D", "K", "R"):
            segs.append([l])
        else:
            segs[-1].append(l)
    return segs


def classify_diff(exp, obs):
    """which property does the first disagreement belong to? returns (prop, oracle, detail)"""
    se, so = segments(exp), segments(obs)
    for i in range(max(len(se), len(so))):
        a = se[i] if i < len(se) else []
        b = so[i] if i < len(so) else []
        if a == b or sorted(a) == sorted(b):
            continue
        # find first line present in one but not the other
        from collections import Counter
        ca, cb = Counter(a), Counter(b)
        missing = list((ca - cb).elements())   # expected but not observed
        extra = list((cb - ca).elements())     # observed but not expected
        detail = "segment %d: expected-not-observed=%s observed-not-expected=%s" % (i, missing[:4], extra[:4])
        kinds_m = [x.split(" ", 1)[0] for x in missing]
        kinds_e = [x.split(" ", 1)[0] for x in extra]
        if "PENDING" in kinds_e:
            return "C01", "lost-completion", detail
        om = [x for x in missing if x.startswith("O ")]
        oe = [x for x in extra if x.startswith("O ")]
        if len(oe) > len(om):
            if not om and any(x.startswith("O ") for x in a + b):
                return "C01", "unexpected-completion", detail
        if om and oe:
            pm, pe = om[0].split(" "), oe[0].split(" ")
            if pm[1:3] != pe[1:3]:
                return "C05", "outcome", detail
            return "C11", "completion-context", detail
        # L+ attribute differences
        lm = {tuple(x.split(" ")[1:3]): x for x in missing if x.startswith("L+ ")}
        le = {tuple(x.split(" ")[1:3]): x for x in extra if x.startswith("L+ ")}
        for key in lm:
            if key in le:
                pm, pe = lm[key].split(" "), le[key].split(" ")
                if pm[3] != pe[3]:
                    return "C04", "leaf-started-with-wrong-token-state", detail
                if pm[5:] != pe[5:]:
                    return "C12", "query-not-forwarded", detail
                if pm[4] != pe[4]:
                    return "C11", "start-context", detail
        if any(k in ("Ls", "Lt") for k in kinds_m + kinds_e) and not any(
                k in ("L+", "F", "Lc") for k in kinds_m + kinds_e):
            return "C04", "stop-visibility", detail
        if "F" in kinds_m or "F" in kinds_e:
            return "C05", "callable-invocation", detail
        if "L+" in kinds_m or "L+" in kinds_e:
            return "C05", "leaf-start", detail
        if any(k in ("Ls", "Lt") for k in kinds_m + kinds_e):
            return "C04", "stop-visibility", detail
        if om or oe:
            return ("C01", "lost-completion" if om else "unexpected-completion", detail)
        return "C05", "event-order", detail
    return None


# ---------------------------------------------------------------------------
# the engine
# ---------------------------------------------------------------------------
class ExprRun:
    def __init__(self, seed, n_programs, per_tu, max_depth, max_leaves, variant, budget, ops=None,
                 name="expr", programs=None, scn_fn=None, alias=None):
        self.seed, self.variant, self.budget = seed, variant, budget
        self.alias = alias or {}
        self.scn_fn = scn_fn or scenarios_for
        self.progs = programs if programs is not None else gen_expr.generate(seed, n_programs, max_depth, max_leaves, ops)
        if core.VARIANTS[variant][1] == "17":
            # stop_if_requested() is only usable with coroutine support (its header does not compile in C++17)
            self.progs = [p for p in self.progs if not gen_expr.has_op(p[1], ("stop_if_requested",))]
        self.per_tu = per_tu
        self.name = name
        self.dropped = []
        self.stats = {"scenarios": 0, "crashes": 0, "distinct": set(), "reordered": 0,
                      "fault_runs": 0, "leaf_orders": set(), "inconclusive": 0, "programs": 0,
                      "weak_mode": 0, "full_mode": 0}
        self.samples = []

    def build(self):
        gens = [("main", gen_expr.MAIN_TU)]
        groups = [self.progs[i:i + self.per_tu] for i in range(0, len(self.progs), self.per_tu)]
        for gi, g in enumerate(groups):
            gens.append(("tu%d" % gi, gen_expr.tu_text(g)))
        try:
            self.exe = core.build_harness(self.variant, self.name, [], gen_sources=gens, pch_text=gen_expr.HEADERS)
            return
        except core.HarnessFailure as e:
            first_err = str(e)
        # fallback: find programs that do not compile (grammar corner) and drop them
        core.log("some generated TU failed to compile; isolating programs")
        good = []

        def try_one(p):
            try:
                core.build_harness(self.variant, self.name + "-probe%d" % p[0], [],
                                   gen_sources=[("main", gen_expr.MAIN_TU), ("p", gen_expr.tu_text([p]))])
                return (p, None)
            except core.HarnessFailure as e:
                return (p, str(e))

        res = core.parallel(try_one, self.progs)
        good = [p for p, err in res if err is None]
        self.dropped = [(p[0], gen_expr.cpp(p[1])[:300], err[-1500:]) for p, err in res if err is not None]
        if len(good) < 0.7 * len(self.progs):
            raise core.HarnessFailure("too many generated programs fail to compile (%d of %d); first error:\n%s"
                                      % (len(self.dropped), len(self.progs), first_err[:4000]))
        self.progs = good
        gens = [("main", gen_expr.MAIN_TU)]
        groups = [self.progs[i:i + self.per_tu] for i in range(0, len(self.progs), self.per_tu)]
        for gi, g in enumerate(groups):
            gens.append(("tu%d" % gi, gen_expr.tu_text(g)))
        self.exe = core.build_harness(self.variant, self.name + "-f", [], gen_sources=gens, pch_text=gen_expr.HEADERS)

    # ------------------------------------------------------------------
    def run_batch(self, lines, env=None):
        """run scenario lines; survive crashes by resuming after the dying scenario.
        returns (results dict sid->info, crashes list of (sid, stderr, rc))"""
        results = {}
        crashes = []
        with tempfile.NamedTemporaryFile("w", suffix=".scn", delete=False, dir="/var/tmp") as f:
            f.write("\n".join(lines) + "\n")
            path = f.name
        try:
            skip = 0
            for attempt in range(40):
                r = core.run([self.exe, path, str(skip)], env=env, timeout=300)
                res, last = parse_output(r.out)
                results.update(res)
                if "#DONE" in r.out and r.rc == 0:
                    break
                # died (or LSan at exit): find the scenario it died in
                if last is None:
                    if "#DONE" in r.out:
                        # exit-time report (e.g. LeakSanitizer)
                        crashes.append((None, r.err, r.rc, r.timed_out))
                        break
                    crashes.append((None, r.err, r.rc, r.timed_out))
                    break
                # rc 91: the harness's own per-scenario watchdog fired (it attached gdb to itself for the backtrace)
                crashes.append((last[1], r.err, r.rc, r.timed_out or r.rc == 91))
                skip = last[2]
                if skip >= len(lines):
                    break
        finally:
            os.unlink(path)
        return results, crashes

    # ------------------------------------------------------------------
    def check_scenario(self, pid, spec, tokkind, sc, info, report):
        lines = info["lines"]
        self.stats["scenarios"] += 1
        # online violations
        for l in lines:
            if l.startswith("V "):
                txt = l[2:]
                prop = online_owner(txt)
                key = re.sub(r"\d+", "N", txt.split(" n=")[0])
                report(prop, "online:" + key.replace(" ", "_"), txt, pid, sc, lines, None)
                if txt.startswith("M3 "):
                    # memory obtained from the receiver's allocator and never returned to it is also C12's clause
                    report("C12", "online:" + key.replace(" ", "_"), txt, pid, sc, lines, None)
        if not info["complete"]:
            return
        faulty = sc.get("throw", 0) > 0
        tline = [l for l in lines if l.startswith("T ")]
        weak = bool(tline) and tline[0].split(" ")[2] != "fn"
        if sc.get("rt"):
            weak = True
        nO = sum(1 for l in lines if l.startswith("O "))
        nX = sum(1 for l in lines if l.startswith("X "))
        started = any(l == "R" for l in lines)
        # protocol (C01) independent of the model
        if started and nO == 0 and "PENDING" in lines:
            pass  # decided by the model comparison below (lost completion) in full mode
        if nO and nX:
            report("C02", "fault:completion-and-exception", "both a completion and an escaped exception",
                   pid, sc, lines, None)
        # stream protocol rules (C13), independent of the model --------------------------
        probe_sids = set(n["sid"] for n in gen_expr.walk(spec) if n.get("s") == "probe")
        if probe_sids:
            outstanding = {}
            started_next = {}
            cleanup_starts = {}
            cleanup_done = {}
            o_seen = False
            for l in lines:
                p = l.split(" ")
                if p[0] == "L+":
                    lid = int(p[1])
                    sid, kind = divmod(lid, 10)
                    if sid not in probe_sids:
                        continue
                    if kind == 1:
                        if outstanding.get(sid):
                            report("C13", "stream:next-started-while-next-outstanding", l, pid, sc, lines, None)
                        if cleanup_starts.get(sid):
                            report("C13", "stream:next-after-cleanup", l, pid, sc, lines, None)
                        outstanding[sid] = True
                        started_next[sid] = True
                    elif kind == 2:
                        cleanup_starts[sid] = cleanup_starts.get(sid, 0) + 1
                        if cleanup_starts[sid] > 1:
                            report("C13", "stream:cleanup-started-twice", l, pid, sc, lines, None)
                        if outstanding.get(sid):
                            report("C13", "stream:cleanup-started-while-next-outstanding", l, pid, sc, lines, None)
                elif p[0] == "Lc":
                    lid = int(p[1])
                    sid, kind = divmod(lid, 10)
                    if sid not in probe_sids:
                        continue
                    if kind == 1:
                        outstanding[sid] = False
                    elif kind == 2:
                        cleanup_done[sid] = True
                elif p[0] == "O":
                    o_seen = True
                    for sid in started_next:
                        if not cleanup_done.get(sid) and not faulty_line(lines):
                            report("C13", "stream:result-delivered-before-cleanup-finished",
                                   "stream %d: consumer completed (%s) before cleanup of a started stream finished" % (sid, l),
                                   pid, sc, lines, None)
        # trait soundness (C11) -------------------------------------------
        P = [l for l in lines if l.startswith("P ")]
        O = [l for l in lines if l.startswith("O ")]
        if P and O:
            pv = dict(x.split("=") for x in P[0].split(" ")[1:])
            o = O[0].split(" ")
            ch = o[1]
            otag = int(o[3].split("=")[1])
            instart = int(o[4].split("=")[1])
            if pv["blocking"] == "0" and not (instart == 1 and otag == M.RCVR_TAG):
                report("C11", "trait:always_inline-violated", "declared always_inline, " + O[0], pid, sc, lines, None)
            if pv["blocking"] == "1" and instart != 1:
                report("C11", "trait:always-violated", "declared always, " + O[0], pid, sc, lines, None)
            if pv["sends_done"] == "0" and ch == "d":
                report("C11", "trait:sends_done-false-but-done", O[0], pid, sc, lines, None)
            if pv["affine"] == "1" and otag != M.RCVR_TAG:
                report("C11", "trait:scheduler-affine-violated", O[0], pid, sc, lines, None)
        # via(S, sch) delivers on sch's context on every path (its completion sender schedule(sch) runs after S whatever S's
        # outcome was); the only legitimate exception is a completion sender that could not be connected (injected throw in a
        # leaf connect / allocation), which is reported from S's context
        if spec.get("op") == "via" and O:
            otag = int(O[0].split(" ")[3].split("=")[1])
            tkind = tline[0].split(" ")[2] if tline else ""
            oi = lines.index(O[0])
            hops = [l.split(" ") for l in lines[:oi] if l.startswith("Lc %d " % spec["sched"])]
            excused = tkind in ("leaf-connect", "alloc") or sc.get("rt")
            if not hops and not excused:
                report("C11", "context:via-completed-without-its-scheduler-hop", "via(..., scheduler %d): %s" % (spec["sched"], O[0]),
                       pid, sc, lines, None)
            elif hops and hops[-1][3] == "v" and otag != spec["sched"] and not excused:
                # (a schedule() that completes with done/error itself - e.g. stop already requested - is not a hop)
                report("C11", "context:via-completed-off-its-scheduler", "via(..., scheduler %d): %s" % (spec["sched"], O[0]),
                       pid, sc, lines, None)
        # model comparison --------------------------------------------------
        if weak:
            self.stats["weak_mode"] += 1
            if started and nO == 0 and nX == 0:
                report("C01", "fault:lost-completion", "no completion after an injected throw", pid, sc, lines, None)
            return
        self.stats["full_mode"] += 1
        try:
            sim = M.simulate(spec, sc, lines, tokkind)
        except M.ModelError as e:
            self.stats["inconclusive"] += 1
            return
        exp = comparable(sim.out)
        obs = comparable(lines)
        d = None
        if exp != obs:
            d = classify_diff(exp, obs)
            if d is None:
                self.stats["reordered"] += 1
        if d is not None and "unjudged-outcome" in sim.flags:
            # the outcome hinges on behaviour that nothing documents (see WhenAllRange in expr_model.py)
            self.stats["unjudged"] = self.stats.get("unjudged", 0) + 1
            d = None
        if d is not None and "when_any-deviation" in sim.flags:
            # the documented when_any result differs from the when_all-based implementation's in this scenario
            # (see WhenAny in expr_model.py): attribute the disagreement to that deviation only
            d = ("C05", "when_any-lagging-completion-overrides-first", d[2])
        if d is not None:
            prop, oracle, detail = d
            report(prop, "model:" + oracle, detail, pid, sc, lines, exp)
        # allocator usage (C12)
        aplus = sorted(int(l.split(" ")[1]) for l in lines if l.startswith("A+ "))
        # (std::allocator, id 0, is what a type-erased wrapper hands to its children; its allocations are not logged)
        if sorted(a for a in sim.alloc_expected if a != 0) != aplus and not faulty:
            report("C12", "allocator:wrong-allocator-used", "expected allocations from %s, observed %s"
                   % (sorted(sim.alloc_expected), aplus), pid, sc, lines, exp)
        # coverage accounting
        order = tuple(l for l in lines if l.split(" ", 1)[0] in ("D", "S", "Ls", "Lc"))
        nontrivial = any(l.startswith("D ") or l.startswith("S ") or l.startswith("T ") or
                         (l.startswith("Lc ") and l.split(" ")[3] != "v") for l in lines)
        if nontrivial:
            h = hashlib.sha1(("%d|%s" % (pid, "|".join(order))).encode()).hexdigest()[:12]
            self.stats["distinct"].add(h)
        self.stats["leaf_orders"].add(hashlib.sha1("|".join(order).encode()).hexdigest()[:12])
        if len(self.samples) < 6 and nontrivial and (self.stats["scenarios"] % 37 == 0 or len(self.samples) < 2):
            self.samples.append({"program": gen_expr.cpp(spec)[:600], "scenario": scn_line(pid, 0, sc),
                                 "observed_log": [l for l in lines if l.split(" ", 1)[0] in
                                                  ("L+", "D", "S", "Ls", "Lc", "F", "O")][:30]})

    # ------------------------------------------------------------------
    def execute(self, verdict_by_prop, want_props, faults=False, fault_programs=None, fault_scenarios=12):
        """run everything; verdict_by_prop: {prop: Verdict}"""
        rng = random.Random(self.seed * 7919 + 13)
        jobs = []
        for (pid, spec, tok, lv) in self.progs:
            scs = self.scn_fn(spec, tok, rng, self.budget)
            jobs.append((pid, spec, tok, scs))
        self.stats["programs"] = len(jobs)

        def report(prop, oracle, what, pid, sc, lines, exp):
            prop = self.alias.get(prop, prop)
            if prop not in verdict_by_prop:
                return
            spec = self.spec_of[pid]
            key = "%s:expr:%s:%s" % (prop, root_class(spec), oracle)
            text = "program %d: %s\nscenario: %s\nvariant: %s seed: %d\n\nobserved log:\n%s\n" % (
                pid, gen_expr.cpp(spec), scn_line(pid, 0, sc), self.variant, self.seed, "\n".join(lines))
            if exp is not None:
                text += "\nexpected (model):\n" + "\n".join(exp) + "\n"
            text += "\nspec: " + json.dumps(spec) + "\n"
            verdict_by_prop[prop].violation(key, what, text)

        self.spec_of = {pid: spec for (pid, spec, tok, lv) in self.progs}

        def run_prog(job):
            pid, spec, tok, scs = job
            lines = [scn_line(pid, i + 1, sc) for i, sc in enumerate(scs)]
            results, crashes = self.run_batch(lines)
            extra = []
            if faults and (fault_programs is None or pid in fault_programs):
                # single-fault enumeration on representative scenarios
                flines = []
                fscs = []
                base = [i for i in range(min(len(scs), fault_scenarios))]
                sid = 100000
                for i in base:
                    info = results.get(i + 1)
                    if not info or not info["complete"]:
                        continue
                    end = [l for l in info["lines"] if l.startswith("END ")]
                    if not end:
                        continue
                    tp = int(end[0].split("tp=")[1].split(" ")[0])
                    for k in range(1, tp + 1):
                        sc2 = dict(scs[i])
                        sc2["throw"] = k
                        sid += 1
                        fscs.append((sid, sc2))
                        flines.append(scn_line(pid, sid, sc2))
                if flines:
                    fres, fcr = self.run_batch(flines)
                    extra = [(sid, sc2, fres.get(sid)) for sid, sc2 in fscs]
                    crashes = crashes + fcr
            return job, results, crashes, extra

        outs = core.parallel(run_prog, jobs)
        for job, results, crashes, extra in outs:
            pid, spec, tok, scs = job
            for i, sc in enumerate(scs):
                info = results.get(i + 1)
                if info is None:
                    self.stats["inconclusive"] += 1
                    continue
                self.check_scenario(pid, spec, tok, sc, info, report)
            for sid, sc2, info in extra:
                if info is None:
                    continue
                self.stats["fault_runs"] += 1
                self.check_scenario(pid, spec, tok, sc2, info, report)
            for (sid, err, rc, timed_out) in crashes:
                self.stats["crashes"] += 1
                sc = None
                if sid is not None:
                    if 1 <= sid <= len(scs):
                        sc = scs[sid - 1]
                    else:
                        for s2, sc2, _ in extra:
                            if s2 == sid:
                                sc = sc2
                ss0 = core.san_summary(err)
                if timed_out and ss0:
                    # the sanitizer had already reported when the watchdog fired: the report is the finding
                    key_o = ss0[0] + ":" + ">".join(ss0[1][:4])
                    timed_out = False
                    prop = "C02"
                elif timed_out:
                    hf = core.hang_summary(err)
                    key_o = "hang" + (":" + ">".join(hf) if hf else "")
                    prop = "C01"
                elif rc == 89 and "event log overflow" in err:
                    key_o = "runaway:event-log-overflow"
                    timed_out = True   # same class as a hang: the operation never settles
                else:
                    ss = core.san_summary(err)
                    if ss:
                        key_o = ss[0] + ":" + ">".join(ss[1][:4])
                    else:
                        key_o = core.abort_summary(err, rc)
                    prop = "C02"
                    if "stop" in key_o.lower() and "C04" in verdict_by_prop and prop not in verdict_by_prop:
                        prop = "C04"
                info = results.get(sid, {"lines": []}) if sid is not None else {"lines": []}
                # a crash is reported to C02 (memory safety) and, when the dying frames are in the
                # stop-token machinery, also to C04
                for p in ("C02", "C04", "C01"):
                    if p in verdict_by_prop and (p == "C02" or (p == "C04" and "stop" in key_o.lower()) or
                                                 (p == "C01" and timed_out)):
                        spec_ = spec
                        key = "%s:expr:%s:%s" % (p, root_class(spec_), key_o)
                        text = "program %d: %s\nscenario: %s\nvariant: %s seed: %d rc=%s\n\npartial log:\n%s\n\nstderr:\n%s\n" % (
                            pid, gen_expr.cpp(spec_), scn_line(pid, 0, sc) if sc else "?", self.variant, self.seed, rc,
                            "\n".join(info["lines"]), err[-6000:])
                        verdict_by_prop[p].violation(key, "process died: " + key_o, text)

    def coverage(self):
        s = self.stats
        return {
            "evaluations": s["scenarios"],
            "distinct_nontrivial": len(s["distinct"]),
            "programs": s["programs"],
            "leaf_orders_distinct": len(s["leaf_orders"]),
            "fault_injected_runs": s["fault_runs"],
            "model_compared": s["full_mode"],
            "weak_oracle_only": s["weak_mode"],
            "reordered_but_equal": s["reordered"],
            "crashed_processes": s["crashes"],
            "inconclusive": s["inconclusive"],
            "dropped_uncompilable": len(self.dropped),
            "samples": self.samples[:6],
        }


def faulty_line(lines):
    return any(l.startswith("T ") for l in lines)


def root_class(spec):
    """scenario class for violation keys: the multiset of composite adaptors in the program"""
    ops = sorted(set(n.get("op") or ("s:" + n["s"]) for n in gen_expr.walk(spec)) - {"leaf", "just", "then", "s:probe"})
    return "+".join(ops)[:120] or "leaf"
