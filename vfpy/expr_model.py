"""Executable reference semantics for generated sender expressions (DESIGN.md App. A).

The simulator mirrors the *harness* mechanics (leaves, driver, stop injection) exactly and the
*library* semantics as documented; it produces the expected event log for one scenario. Fresh
payload ids and "did this callable throw" are bound from the observed log by stable keys, so the
comparison does not depend on the order in which independent events were produced.
"""

OC_VALUE, OC_ERROR, OC_DONE = 0, 1, 2
MODE_INLINE, MODE_DEFER = 0, 1
REACT_IGNORE, REACT_DONE_NOW, REACT_DONE_LATER = 0, 1, 2
(STOP_NONE, STOP_PRE_CONNECT, STOP_PRE_START, STOP_IN_LEAF_START, STOP_BETWEEN, STOP_IN_FN,
 STOP_AFTER_END) = range(7)
RCVR_TAG = 199
RCVR_SCHED = 199
RCVR_COOKIE = 4242
RCVR_ALLOC = 7
TOK_COUNTING, TOK_INPLACE, TOK_NONE = 0, 1, 2


class ModelError(Exception):
    pass


class ConnectThrow(Exception):
    def __init__(self, k):
        self.k = k


# ---------------------------------------------------------------------------
# payload description (mirror of vf::describe)
# ---------------------------------------------------------------------------
def desc(x):
    t = x[0]
    if t == "val":
        return str(x[1])
    if t == "tuple":
        return "(" + ",".join(desc(e) for e in x[1]) + ")"
    if t == "var":
        return "<" + desc(x[1]) + ">"
    if t == "opt":
        return "?-" if x[1] is None else "?" + desc(x[1])
    if t == "vec":
        return "[" + ",".join(desc(e) for e in x[1]) + "]"
    if t in ("exc", "raw"):
        return x[1]
    raise ModelError("desc %r" % (x,))


def desc_all(pack):
    return ",".join(desc(e) for e in pack) if pack else "-"


# ---------------------------------------------------------------------------
# stop tokens
# ---------------------------------------------------------------------------
class Tok:
    def __init__(self, possible=True):
        self.possible = possible
        self.requested = False
        self.cbs = []

    def register(self, cb):
        """returns a handle; runs cb inline if already requested"""
        if not self.possible:
            return None
        if self.requested:
            cb()
            return None
        h = [cb]
        self.cbs.insert(0, h)  # LIFO like inplace_stop_source
        return h

    def unregister(self, h):
        if h is not None and h in self.cbs:
            self.cbs.remove(h)

    def request(self):
        if self.requested or not self.possible:
            return
        self.requested = True
        while self.cbs:
            h = self.cbs.pop(0)
            h[0]()


class Env:
    __slots__ = ("tok", "sched", "alloc", "cookie")

    def __init__(self, tok, sched, alloc, cookie):
        self.tok, self.sched, self.alloc, self.cookie = tok, sched, alloc, cookie

    def with_(self, **kw):
        e = Env(self.tok, self.sched, self.alloc, self.cookie)
        for k, v in kw.items():
            setattr(e, k, v)
        return e


class Scenario:
    def __init__(self, d):
        self.d = d
        self.stop_kind, self.stop_a, self.stop_b = d.get("stop", (0, 0, 0))
        self.default = d.get("def", (0, 0, 0, 0))
        self.cfg = d.get("cfg", {})  # (id,n) -> tuple ; n == -1 wildcard
        self.prio = d.get("prio", [])
        self.nostart = d.get("ns", 0)
        self.throw_at = d.get("throw", 0)

    def get(self, id_, n):
        c = self.cfg.get((id_, n))
        if c is not None:
            return list(c) + [0] * (4 - len(c))   # explicit entry for this very start: as is
        c = self.cfg.get((id_, -1))
        if c is None:
            c = self.default
        c = list(c) + [0] * (4 - len(c))
        if n >= 2:
            c[0] = OC_VALUE
        return c


class Observed:
    """Bindings taken from the observed log: fresh ids and throw points."""

    def __init__(self, lines):
        self.leaf_pid = {}   # (id, n) -> payload string
        self.fn_ret = {}     # (k, occ) -> id
        self.fn_throw = {}   # (k, occ) -> inj k
        occ = {}
        last_f = None
        for ln in lines:
            p = ln.split(" ")
            if p[0] == "Lc" and len(p) >= 5:
                self.leaf_pid[(int(p[1]), int(p[2]))] = p[4]
            elif p[0] == "F":
                k = int(p[1])
                o = occ.get(k, 0)
                occ[k] = o + 1
                last_f = (k, o)
            elif p[0] == "F>":
                # "F> k id" belongs to the latest invocation of k (another callable may have run in between,
                # e.g. when a stop request is injected from inside k)
                kk = int(p[1])
                self.fn_ret[(kk, occ.get(kk, 1) - 1)] = int(p[2])
            elif p[0] == "T" and p[2] == "fn" and last_f is not None:
                self.fn_throw[last_f] = int(p[1])


# ---------------------------------------------------------------------------
# the simulator
# ---------------------------------------------------------------------------
class Sim:
    def __init__(self, spec, scn, obs, tokkind):
        self.spec, self.scn, self.obs = spec, scn, obs
        self.out = []
        self.parked = []
        self.start_count = {}
        self.fn_occ = {}
        self.cur_tag = 0
        self.step = 0
        self.stop_requested = False
        self.tokkind = tokkind
        self.root_tok = Tok(possible=(tokkind != TOK_NONE))
        self.n_completions = 0
        self.in_start = False
        self.alloc_expected = []   # multiset of allocator ids for A+ events
        self.outcome = None
        self.leaf_tok_stopped = {}
        self.flags = set()
        self.destroy_hooks = []    # run when the outer operation state is destroyed (coroutine frames)

    def emit(self, s):
        self.out.append(s)
        if len(self.out) > 100000:
            # bindings taken from a log the model cannot follow (e.g. a broken library looping): give up, do not loop
            raise ModelError("model output runaway")

    # harness mechanics -----------------------------------------------------
    def request_stop(self):
        if self.stop_requested:
            return
        self.stop_requested = True
        if self.tokkind == TOK_NONE:
            self.emit("S skipped")
            return
        if self.scn.d.get("fsc") and self.n_completions > 0:
            self.emit("S skipped")
            return
        self.emit("S tag=%d completed=%d" % (RCVR_TAG, self.n_completions))
        prev, self.cur_tag = self.cur_tag, RCVR_TAG
        self.root_tok.request()
        self.cur_tag = prev
        self.emit("S.")
        for l in list(self.parked):
            self.emit("Lt %d %d %d" % (l.id, l.n, 1 if l.env.tok.requested else 0))

    def call_fn(self, k, args):
        """returns ('ok', retid) or ('throw', exc-item)"""
        self.emit("F %d %s" % (k, args))
        o = self.fn_occ.get(k, 0)
        self.fn_occ[k] = o + 1
        if self.scn.stop_kind == STOP_IN_FN and self.scn.stop_a == k:
            self.request_stop()
        if (k, o) in self.obs.fn_throw:
            return ("throw", ("exc", "inj%d" % self.obs.fn_throw[(k, o)]))
        return ("ok", self.obs.fn_ret.get((k, o), -1))

    def op_destroyed(self):
        hooks, self.destroy_hooks = self.destroy_hooks, []
        for h in hooks:
            h()

    def choose(self):
        if not self.parked:
            return None
        best, bestp = None, None
        prio = self.scn.prio
        for l in self.parked:
            p = prio.index(l.id) if l.id in prio else len(prio)
            if best is None or p < bestp:
                best, bestp = l, p
        return best

    def drive(self):
        while True:
            if self.scn.stop_kind == STOP_BETWEEN and self.scn.stop_a == self.step:
                self.request_stop()
            l = self.choose()
            if l is None:
                break
            self.step += 1
            self.emit("D %d %d" % (l.id, l.n))
            l.complete_now()
            if self.step > 10000:
                raise ModelError("step limit")

    def run(self):
        sc = self.scn
        self.cur_tag = RCVR_TAG
        env = Env(self.root_tok, RCVR_SCHED, RCVR_ALLOC, RCVR_COOKIE)
        if sc.stop_kind == STOP_PRE_CONNECT:
            self.request_stop()
        root = build(self, self.spec, Outer(self), 0)
        try:
            root.connect(env)
        except ConnectThrow as e:
            self.emit("X connect inj%d" % e.k)
            self.cur_tag = 0
            self.drive()
            return
        self.emit("K")
        if sc.nostart:
            self.cur_tag = 0
            self.drive()
            return
        if sc.stop_kind == STOP_PRE_START:
            self.request_stop()
        self.in_start = True
        root.start()
        self.in_start = False
        self.emit("R")
        self.drive()
        if sc.stop_kind == STOP_AFTER_END or (sc.stop_kind != STOP_NONE and not self.stop_requested):
            self.request_stop()
        if self.n_completions == 0:
            self.emit("PENDING")
        self.op_destroyed()
        self.cur_tag = 0
        self.drive()


class Node:
    def __init__(self, sim, spec, parent, slot):
        self.sim, self.spec, self.parent, self.slot = sim, spec, parent, slot
        self.env = None

    def connect(self, env):
        self.env = env

    def start(self):
        raise NotImplementedError

    def done(self, ch, pack):
        self.parent.child_done(self.slot, ch, pack)

    def child_done(self, slot, ch, pack):
        raise NotImplementedError

    def kid(self, spec, slot):
        return build(self.sim, spec, self, slot)


class Outer(Node):
    def __init__(self, sim):
        self.sim = sim

    def child_done(self, slot, ch, pack):
        s = self.sim
        s.n_completions += 1
        if ch == "v":
            p = desc_all(pack)
        elif ch == "e":
            p = desc(pack)
        else:
            p = "-"
        s.outcome = (ch, p)
        s.emit("O %s %s tag=%d instart=%d" % (ch, p, s.cur_tag, 1 if s.in_start else 0))
        if s.scn.d.get("dic"):
            s.op_destroyed()


class Leaf(Node):
    def __init__(self, sim, spec, parent, slot):
        super().__init__(sim, spec, parent, slot)
        self.id = spec["id"]
        self.vt = spec.get("vt", "void")
        self.inline_only = spec.get("blocking") == "inline"
        self.sd = spec.get("sd", 1)
        self.aff = spec.get("aff", 0)
        self.is_sched = spec.get("is_sched", 0)
        self.parked = False
        self.completed = False
        self.stop_seen = False
        self.h = None
        self.n = -1

    def start(self):
        s = self.sim
        self.n = s.start_count.get(self.id, 0)
        s.start_count[self.id] = self.n + 1
        oc, mode, react, tag = s.scn.get(self.id, self.n)
        if self.inline_only:
            mode = MODE_INLINE
        if self.aff:
            tag = RCVR_TAG
        if self.is_sched:
            tag = self.id
        self.oc, self.mode, self.react, self.tag = oc, mode, react, tag
        e = self.env
        s.emit("L+ %d %d tok=%d tag=%d sched=%d alloc=%d cookie=%d" %
               (self.id, self.n, 1 if e.tok.requested else 0, s.cur_tag, e.sched, e.alloc, e.cookie))
        if s.scn.stop_kind == STOP_IN_LEAF_START and s.scn.stop_a == self.id and s.scn.stop_b == self.n:
            s.request_stop()
        if mode == MODE_INLINE:
            if e.tok.static_possible:
                if react != REACT_IGNORE and self.sd and e.tok.requested:
                    self.stop_seen = True
                    s.emit("Ls %d %d" % (self.id, self.n))
                    oc = OC_DONE
            if self.is_sched:
                prev, s.cur_tag = s.cur_tag, self.id
                self.finish(oc)
                s.cur_tag = prev
            else:
                self.finish(oc)
            return
        self.parked = True
        s.parked.append(self)
        if e.tok.static_possible:
            self.h = e.tok.register(self.on_stop)

    def on_stop(self):
        s = self.sim
        self.stop_seen = True
        s.emit("Ls %d %d" % (self.id, self.n))
        if self.react == REACT_DONE_NOW and self.sd and self.parked:
            self.unpark()
            self.finish(OC_DONE)

    def unpark(self):
        self.parked = False
        if self in self.sim.parked:
            self.sim.parked.remove(self)

    def complete_now(self):
        s = self.sim
        self.unpark()
        oc = OC_DONE if (self.stop_seen and self.react == REACT_DONE_LATER and self.sd) else self.oc
        prev, s.cur_tag = s.cur_tag, self.tag
        self.finish(oc)
        s.cur_tag = prev

    def finish(self, oc):
        s = self.sim
        self.completed = True
        self.env.tok.unregister(self.h)
        self.h = None
        if oc == OC_DONE and not self.sd:
            oc = OC_VALUE
        if self.vt == "none" and oc == OC_VALUE:
            oc = OC_DONE
        pid = s.obs.leaf_pid.get((self.id, self.n), "?")
        if oc == OC_VALUE:
            if self.vt == "void":
                s.emit("Lc %d %d v - tag=%d" % (self.id, self.n, s.cur_tag))
                self.done("v", [])
            else:
                s.emit("Lc %d %d v %s tag=%d" % (self.id, self.n, pid, s.cur_tag))
                try:
                    v = int(pid)
                except ValueError:
                    v = -1
                self.done("v", [("val", v)])
        elif oc == OC_ERROR:
            s.emit("Lc %d %d e %s tag=%d" % (self.id, self.n, pid, s.cur_tag))
            self.done("e", ("exc", pid))
        else:
            s.emit("Lc %d %d d - tag=%d" % (self.id, self.n, s.cur_tag))
            self.done("d", None)


# Tok gets a "static_possible" attribute: whether the *type* of the token can be stopped.
# (an unstoppable_token has a static stop_possible()==false; a default-constructed
# inplace_stop_token cannot be stopped at run time but its type can.)
Tok.static_possible = True


class UnstoppableTok(Tok):
    static_possible = False

    def __init__(self):
        super().__init__(possible=False)


# ---- factories -------------------------------------------------------------
class Just(Node):
    def start(self):
        self.done("v", [("val", i) for i in self.spec.get("vals", [])])


class JustError(Node):
    def start(self):
        self.done("e", ("exc", "e%d" % self.spec["eid"]))


class JustDone(Node):
    def start(self):
        self.done("d", None)


class JustVoidOrDone(Node):
    def start(self):
        if self.spec["b"]:
            self.done("v", [])
        else:
            self.done("d", None)


class StopIfRequested(Node):
    def start(self):
        if self.env.tok.requested:
            self.done("d", None)
        else:
            self.done("v", [])


class JustFrom(Node):
    def start(self):
        r, x = self.sim.call_fn(self.spec["fn"], "-")
        if r == "throw":
            self.done("e", x)
        elif self.spec["ret"] == "val":
            self.done("v", [("val", x)])
        else:
            self.done("v", [])


# ---- unary channel adaptors --------------------------------------------------
class Unary(Node):
    def __init__(self, sim, spec, parent, slot):
        super().__init__(sim, spec, parent, slot)
        self.k0 = self.kid(spec["kid"], 0)

    def child_env(self, env):
        return env

    def connect(self, env):
        self.env = env
        self.k0.connect(self.child_env(env))

    def start(self):
        self.k0.start()

    def child_done(self, slot, ch, pack):
        self.done(ch, pack)


class Then(Unary):
    on = "v"

    def child_done(self, slot, ch, pack):
        if ch != self.on:
            return self.done(ch, pack)
        if ch == "v":
            args = desc_all(pack)
        elif ch == "e":
            args = desc(pack)
        else:
            args = "-"
        r, x = self.sim.call_fn(self.spec["fn"], args)
        if r == "throw":
            self.done("e", x)
        elif self.spec["ret"] == "val":
            self.done("v", [("val", x)])
        else:
            self.done("v", [])


class UponError(Then):
    on = "e"


class UponDone(Then):
    on = "d"


class Let(Unary):
    on = "v"

    def child_done(self, slot, ch, pack):
        if slot == 1 or ch != self.on:
            return self.done(ch, pack)
        if ch == "v":
            args = desc_all(pack)
        elif ch == "e":
            args = desc(pack)
        else:
            args = "-"
        r, x = self.sim.call_fn(self.spec["fn"], args)
        if r == "throw":
            return self.done("e", x)
        succ = self.kid(self.spec["body"], 1)
        try:
            succ.connect(self.env)
        except ConnectThrow as e:
            return self.done("e", ("exc", "inj%d" % e.k))
        succ.start()


class LetError(Let):
    on = "e"


class LetDone(Let):
    on = "d"


class Defer(Node):
    # defer(f) == let_value(just(), f)
    def start(self):
        r, x = self.sim.call_fn(self.spec["fn"], "-")
        if r == "throw":
            return self.done("e", x)
        succ = self.kid(self.spec["body"], 0)
        try:
            succ.connect(self.env)
        except ConnectThrow as e:
            return self.done("e", ("exc", "inj%d" % e.k))
        succ.start()

    def child_done(self, slot, ch, pack):
        self.done(ch, pack)


class Sequence(Node):
    def __init__(self, sim, spec, parent, slot):
        super().__init__(sim, spec, parent, slot)
        self.specs = spec["kids"]
        self.cur = None

    def connect(self, env):
        self.env = env
        self.cur = self.kid(self.specs[0], 0)
        self.cur.connect(env)

    def start(self):
        self.cur.start()

    def child_done(self, slot, ch, pack):
        if slot == len(self.specs) - 1 or ch != "v":
            return self.done(ch, pack)
        nxt = self.kid(self.specs[slot + 1], slot + 1)
        try:
            nxt.connect(self.env)
        except ConnectThrow as e:
            return self.done("e", ("exc", "inj%d" % e.k))
        self.cur = nxt
        nxt.start()


class Finally(Node):
    def __init__(self, sim, spec, parent, slot):
        super().__init__(sim, spec, parent, slot)
        self.src = self.kid(spec["kid"], 0)
        self.res = None

    def connect(self, env):
        self.env = env
        self.src.connect(env)

    def start(self):
        self.src.start()

    def child_done(self, slot, ch, pack):
        if slot == 0:
            self.res = (ch, pack)
            c = self.kid(self.spec["completion"], 1)
            try:
                c.connect(self.env)
            except ConnectThrow as e:
                return self.done("e", ("exc", "inj%d" % e.k))
            c.start()
        else:
            if ch == "v":
                self.done(*self.res)
            else:
                self.done(ch, pack)


def sched_leaf(k):
    return {"op": "leaf", "id": k, "vt": "void", "sd": 1, "is_sched": 1}


class Via(Finally):
    def __init__(self, sim, spec, parent, slot):
        spec = dict(spec)
        spec["completion"] = sched_leaf(spec["sched"])
        super().__init__(sim, spec, parent, slot)


class WithQuery(Unary):
    def child_env(self, env):
        q = self.spec["q"]
        if q == "cookie":
            return env.with_(cookie=self.spec["value"])
        if q == "sched":
            return env.with_(sched=self.spec["value"])
        if q == "alloc":
            return env.with_(alloc=self.spec["value"])
        raise ModelError(q)


class On(Sequence):
    def __init__(self, sim, spec, parent, slot):
        k = spec["sched"]
        spec = dict(spec)
        spec["kids"] = [sched_leaf(k), {"op": "with_query", "q": "sched", "value": k, "kid": spec["kid"]}]
        super().__init__(sim, spec, parent, slot)


class Unstoppable(Unary):
    def child_env(self, env):
        return env.with_(tok=UnstoppableTok())


class Materialize(Unary):
    def child_done(self, slot, ch, pack):
        if ch == "v":
            self.done("v", [("raw", "SV")] + list(pack))
        elif ch == "e":
            self.done("v", [("raw", "SE"), pack])
        else:
            self.done("v", [("raw", "SD")])


class Dematerialize(Unary):
    def child_done(self, slot, ch, pack):
        if ch != "v":
            return self.done(ch, pack)
        t = pack[0][1]
        if t == "SV":
            self.done("v", list(pack[1:]))
        elif t == "SE":
            self.done("e", pack[1])
        else:
            self.done("d", None)


class DoneAsOptional(Unary):
    def child_done(self, slot, ch, pack):
        if ch == "v":
            self.done("v", [("opt", pack[0])])
        elif ch == "d":
            self.done("v", [("opt", None)])
        else:
            self.done(ch, pack)


class IntoVariant(Unary):
    def child_done(self, slot, ch, pack):
        if ch == "v":
            self.done("v", [("var", ("tuple", list(pack)))])
        else:
            self.done(ch, pack)


class AnySender(Unary):
    # any_sender_of<Values...> forwards completions unchanged; of the receiver queries only the stop token
    # (through the inplace_stop_token adapter) reaches the wrapped operation
    def child_env(self, env):
        tok = env.tok
        if not tok.static_possible:
            tok = Tok(possible=False)   # a default inplace_stop_token: never stopped, stoppable type
        return Env(tok, -1, 0, -1)


class Allocate(Unary):
    def connect(self, env):
        self.sim.alloc_expected.append(env.alloc)
        super().connect(env)


class LinkedSource:
    """an algorithm-owned stop source chained to the parent's token between start and completion"""

    def __init__(self, parent_tok):
        self.parent = parent_tok
        self.tok = Tok()
        self.h = None

    def register(self):
        self.h = self.parent.register(self.tok.request)

    def unregister(self):
        self.parent.unregister(self.h)
        self.h = None


class LVWStopSource(Node):
    def connect(self, env):
        self.env = env
        self.src = LinkedSource(env.tok)
        r, x = self.sim.call_fn(self.spec["fn"], "#")
        if r == "throw":
            raise ConnectThrow(int(x[1][3:]))
        self.k0 = self.kid(self.spec["body"], 0)
        self.k0.connect(env.with_(tok=self.src.tok))

    def start(self):
        self.src.register()
        self.k0.start()

    def child_done(self, slot, ch, pack):
        self.src.unregister()
        self.done(ch, pack)


class LVWStopToken(LVWStopSource):
    def connect(self, env):
        self.env = env
        self.src = LinkedSource(env.tok)
        if not env.tok.static_possible:
            # library hands out a default inplace_stop_token: never stopped, but of stoppable type
            self.src.tok = Tok(possible=False)
        r, x = self.sim.call_fn(self.spec["fn"], "#")
        if r == "throw":
            raise ConnectThrow(int(x[1][3:]))
        self.k0 = self.kid(self.spec["body"], 0)
        self.k0.connect(env.with_(tok=self.src.tok))


class LetValueWith(Node):
    def connect(self, env):
        self.env = env
        r, x = self.sim.call_fn(self.spec["gfn"], "-")   # state factory, at connect
        if r == "throw":
            raise ConnectThrow(int(x[1][3:]))
        r, y = self.sim.call_fn(self.spec["fn"], str(x))  # successor factory with state&
        if r == "throw":
            raise ConnectThrow(int(y[1][3:]))
        self.k0 = self.kid(self.spec["body"], 0)
        self.k0.connect(env)

    def start(self):
        self.k0.start()

    def child_done(self, slot, ch, pack):
        self.done(ch, pack)


class WhenAll(Node):
    def __init__(self, sim, spec, parent, slot):
        super().__init__(sim, spec, parent, slot)
        self.kids = [self.kid(k, i) for i, k in enumerate(spec["kids"])]
        self.n = len(self.kids)

    def connect(self, env):
        self.env = env
        self.src = Tok()
        cenv = env.with_(tok=self.src)
        for k in reversed(self.kids):  # operation_tuple constructs the tail first
            k.connect(cenv)

    def start(self):
        self.ref = self.n
        self.done_or_error = False
        self.error = None
        self.vals = [None] * self.n
        self.h = self.env.tok.register(self.on_stop)
        for k in self.kids:
            k.start()

    def on_stop(self):
        self.ref += 1
        if self.ref == 1:
            return
        self.src.request()
        self.element_complete()

    def child_done(self, slot, ch, pack):
        if ch == "v":
            self.vals[slot] = ("var", ("tuple", list(pack)))
        elif ch == "e":
            if not self.done_or_error:
                self.done_or_error = True
                self.error = pack
                self.src.request()
        else:
            if not self.done_or_error:
                self.done_or_error = True
                self.src.request()
        self.element_complete()

    def element_complete(self):
        self.ref -= 1
        if self.ref == 0:
            self.env.tok.unregister(self.h)
            if self.env.tok.requested:
                self.done("d", None)
            elif self.done_or_error:
                if self.error is not None:
                    self.done("e", self.error)
                else:
                    self.done("d", None)
            else:
                self.done("v", list(self.vals))


class WhenAny(WhenAll):
    """doc: 'completes when any of the input senders completes, the rest are cancelled. The result of the algorithm
    is always the completion result of the first sender to complete, even if done or error. Lagging senders may
    complete with set_value in which case their results are discarded.'

    The implementation is when_all over children whose value is stored (first value wins) and turned into done; it
    therefore reports a *lagging* error instead of an earlier value/done, and a lagging value instead of an earlier
    done.  The model follows the documentation and flags the scenarios in which the two differ so that the checker
    can attribute the disagreement to that (recorded) deviation and to nothing else."""

    def connect(self, env):
        # children are connected lazily (inside let_value successors) when the operation is started
        self.env = env
        self.src = Tok()

    def start(self):
        cenv = self.env.with_(tok=self.src)
        for k in reversed(self.kids):
            k.connect(cenv)
        self.first = None
        self.stored = None       # implementation shadow: first value
        self.first_err = None    # implementation shadow: first error seen by the inner when_all
        super().start()

    def child_done(self, slot, ch, pack):
        if self.first is None:
            self.first = (ch, pack)
        if ch == "v" and self.stored is None:
            self.stored = pack
        if ch == "e" and self.first_err is None:
            self.first_err = pack
        self.src.request()
        self.element_complete()

    def element_complete(self):
        self.ref -= 1
        if self.ref == 0:
            self.env.tok.unregister(self.h)
            if self.env.tok.requested or self.first_err is None:
                impl = ("v", self.stored) if self.stored is not None else ("d", None)
            else:
                impl = ("e", self.first_err)
            if impl[0] != self.first[0] or (impl[0] != "d" and impl[1] is not self.first[1]):
                self.sim.flags.add("when_any-deviation")
            self.done(*self.first)


class WhenAllRange(WhenAll):
    """when_all_range(std::vector<Sender>) (undocumented; written from the header and from when_all's documentation):
    children are connected in index order, an empty range completes inline with an empty vector, the first child
    error/done requests stop on the rest and decides the result once all children have completed, otherwise the
    result is the vector of values in index order.  Unlike when_all the implementation does not turn a result into
    done when the receiver's token was stopped; nothing documents either behaviour, so a scenario in which that
    rule would decide the outcome is flagged and not judged."""

    def connect(self, env):
        self.env = env
        self.src = Tok()
        cenv = env.with_(tok=self.src)
        for k in self.kids:
            k.connect(cenv)

    def start(self):
        if self.n == 0:
            self.done("v", [("vec", [])])
            return
        super().start()

    def child_done(self, slot, ch, pack):
        if ch == "v":
            self.vals[slot] = pack[0]
            self.element_complete()
        else:
            super().child_done(slot, ch, pack)

    def element_complete(self):
        self.ref -= 1
        if self.ref == 0:
            self.env.tok.unregister(self.h)
            if self.done_or_error:
                if self.error is not None:
                    self.done("e", self.error)
                else:
                    self.done("d", None)
            else:
                if self.env.tok.requested:
                    self.sim.flags.add("unjudged-outcome")
                self.done("v", [("vec", list(self.vals))])


class VariantSender(Node):
    """variant_sender<A, B>: behaves as the alternative it holds"""

    def __init__(self, sim, spec, parent, slot):
        super().__init__(sim, spec, parent, slot)
        self.k = self.kid(spec["alts"][spec["active"]], 0)

    def connect(self, env):
        self.env = env
        self.k.connect(env)

    def start(self):
        self.k.start()

    def child_done(self, slot, ch, pack):
        self.done(ch, pack)


class StopWhen(Node):
    def __init__(self, sim, spec, parent, slot):
        super().__init__(sim, spec, parent, slot)
        self.s = self.kid(spec["kid"], 0)
        self.t = self.kid(spec["trigger"], 1)

    def connect(self, env):
        self.env = env
        self.src = Tok()
        cenv = env.with_(tok=self.src)
        self.s.connect(cenv)
        self.t.connect(cenv)

    def start(self):
        self.count = 2
        self.res = None
        self.h = self.env.tok.register(self.on_stop)
        self.s.start()
        self.t.start()

    def on_stop(self):
        self.count += 1
        if self.count == 1:
            return
        self.src.request()
        self.count -= 1
        if self.count == 0:
            self.done(*self.res)

    def child_done(self, slot, ch, pack):
        if slot == 0:
            self.res = (ch, pack)
        self.src.request()
        self.count -= 1
        if self.count == 0:
            self.env.tok.unregister(self.h)
            self.done(*self.res)


class RetryWhen(Node):
    def connect(self, env):
        self.env = env
        self.cur = self.kid(self.spec["kid"], 0)
        self.cur.connect(env)

    def start(self):
        self.cur.start()

    def child_done(self, slot, ch, pack):
        if slot == 0:
            if ch != "e":
                return self.done(ch, pack)
            r, x = self.sim.call_fn(self.spec["fn"], desc(pack))
            if r == "throw":
                return self.done("e", x)
            t = self.kid(self.spec["body"], 1)
            try:
                t.connect(self.env)
            except ConnectThrow as e:
                return self.done("e", ("exc", "inj%d" % e.k))
            t.start()
        else:
            if ch != "v":
                return self.done(ch, pack)
            self.cur = self.kid(self.spec["kid"], 0)
            try:
                self.cur.connect(self.env)
            except ConnectThrow as e:
                return self.done("e", ("exc", "inj%d" % e.k))
            self.cur.start()


class RepeatEffectUntil(Node):
    def connect(self, env):
        self.env = env
        self.cur = self.kid(self.spec["kid"], 0)
        self.cur.connect(env)

    def start(self):
        self.cur.start()

    def child_done(self, slot, ch, pack):
        if ch != "v":
            return self.done(ch, pack)
        # predicate: harness functor "true on the n-th call"
        r, x = self.sim.call_fn(self.spec["fn"], "-")
        if r == "throw":
            return self.done("e", x)
        o = self.sim.fn_occ[self.spec["fn"]]
        if o >= self.spec["until"]:
            return self.done("v", [])
        self.cur = self.kid(self.spec["kid"], 0)
        try:
            self.cur.connect(self.env)
        except ConnectThrow as e:
            return self.done("e", ("exc", "inj%d" % e.k))
        self.cur.start()


CLASSES = {
    "leaf": Leaf, "just": Just, "just_error": JustError, "just_done": JustDone,
    "just_void_or_done": JustVoidOrDone, "stop_if_requested": StopIfRequested,
    "just_from": JustFrom, "defer": Defer,
    "then": Then, "upon_error": UponError, "upon_done": UponDone,
    "let_value": Let, "let_error": LetError, "let_done": LetDone,
    "sequence": Sequence, "finally": Finally, "via": Via, "on": On,
    "with_query": WithQuery, "unstoppable": Unstoppable,
    "materialize": Materialize, "dematerialize": Dematerialize,
    "done_as_optional": DoneAsOptional, "into_variant": IntoVariant, "allocate": Allocate,
    "any_sender": AnySender,
    "lvw_stop_source": LVWStopSource, "lvw_stop_token": LVWStopToken, "let_value_with": LetValueWith,
    "when_all": WhenAll, "when_any": WhenAny, "stop_when": StopWhen,
    "when_all_range": WhenAllRange, "variant_sender": VariantSender,
    "retry_when": RetryWhen, "repeat_effect_until": RepeatEffectUntil,
}


# ---------------------------------------------------------------------------
# streams (C13): list semantics per adaptor, expressed reactively
# ---------------------------------------------------------------------------
class _Adapter:
    """parent of a model leaf/sender that forwards its completion to a continuation"""

    def __init__(self, k):
        self.k = k

    def child_done(self, slot, ch, pack):
        self.k(ch, pack)


def run_sender(sim, spec, env, k):
    n = build(sim, spec, _Adapter(k), 0)
    try:
        n.connect(env)
    except ConnectThrow as e:
        return k("e", ("exc", "inj%d" % e.k))
    n.start()


class StreamModel:
    def __init__(self, sim, spec):
        self.sim, self.spec = sim, spec

    def next(self, env, k):
        raise NotImplementedError

    def cleanup(self, env, k):
        raise NotImplementedError


class ProbeStream(StreamModel):
    def next(self, env, k):
        run_sender(self.sim, {"op": "leaf", "id": self.spec["sid"] * 10 + 1, "vt": "val", "sd": 1}, env, k)

    def cleanup(self, env, k):
        run_sender(self.sim, {"op": "leaf", "id": self.spec["sid"] * 10 + 2, "vt": "none", "sd": 1}, env, k)


class TransformStream(StreamModel):
    def __init__(self, sim, spec):
        super().__init__(sim, spec)
        self.src = build_stream(sim, spec["src"])

    def next(self, env, k):
        def on(ch, pack):
            if ch != "v":
                return k(ch, pack)
            r, x = self.sim.call_fn(self.spec["fn"], desc_all(pack))
            if r == "throw":
                return k("e", x)
            k("v", [("val", x)])
        self.src.next(env, on)

    def cleanup(self, env, k):
        self.src.cleanup(env, k)


class FilterStream(StreamModel):
    def __init__(self, sim, spec):
        super().__init__(sim, spec)
        self.src = build_stream(sim, spec["src"])

    def next(self, env, k):
        def on(ch, pack):
            if ch != "v":
                return k(ch, pack)
            fk = self.spec["fn"]
            r, x = self.sim.call_fn(fk, desc_all(pack))
            if r == "throw":
                return k("e", x)
            n = self.sim.fn_occ[fk] - 1
            keep = (self.spec["mask"] >> (n % 16)) & 1
            if keep:
                k("v", pack)
            else:
                self.src.next(env, on)
        self.src.next(env, on)

    def cleanup(self, env, k):
        self.src.cleanup(env, k)


class ViaStream(StreamModel):
    def __init__(self, sim, spec):
        super().__init__(sim, spec)
        self.src = build_stream(sim, spec["src"])

    def _via(self, env, k):
        # via(sender, s) == finally(sender, schedule(s))
        def on(ch, pack):
            def hop(ch2, pack2):
                if ch2 == "v":
                    k(ch, pack)
                else:
                    k(ch2, pack2)
            run_sender(self.sim, sched_leaf(self.spec["sched"]), env, hop)
        return on

    def next(self, env, k):
        self.src.next(env, self._via(env, k))

    def cleanup(self, env, k):
        self.src.cleanup(env, self._via(env, k))


class TypeEraseStream(StreamModel):
    def __init__(self, sim, spec):
        super().__init__(sim, spec)
        self.src = build_stream(sim, spec["src"])

    @staticmethod
    def erased(env):
        # type_erased_stream forwards get_stop_token and get_scheduler (as any_scheduler) only
        return env.with_(sched=-2, alloc=0, cookie=-1)

    def next(self, env, k):
        self.src.next(self.erased(env), k)

    def cleanup(self, env, k):
        self.src.cleanup(self.erased(env), k)


class TakeUntilStream(StreamModel):
    def __init__(self, sim, spec):
        super().__init__(sim, spec)
        self.src = build_stream(sim, spec["src"])
        self.trig = build_stream(sim, spec["trig"])
        self.stop = Tok()
        self.trigger_started = False
        self.cleanup_ready = False
        self.cleanup_op = None

    def next(self, env, k):
        if not self.trigger_started:
            self.trigger_started = True
            # the trigger's next() outlives any single next(): its receiver only answers get_stop_token
            self.trig.next(Env(self.stop, -1, 0, -1), lambda ch, pack: self.trigger_next_done())
        h = [None]

        def on(ch, pack):
            env.tok.unregister(h[0])
            if ch != "v":
                self.stop.request()
            k(ch, pack)
        h[0] = env.tok.register(self.stop.request)
        self.src.next(env.with_(tok=self.stop), on)

    def trigger_next_done(self):
        if not self.cleanup_ready:
            self.stop.request()
            if not self.cleanup_ready:
                self.cleanup_ready = True
                return
        self.cleanup_op()

    def cleanup(self, env, k):
        st = {"done": 0, "src_err": None, "trig_err": None}

        def finish():
            st["done"] += 1
            if st["done"] < 2:
                return
            if st["src_err"] is not None:
                k("e", st["src_err"])
            elif st["trig_err"] is not None:
                k("e", st["trig_err"])
            else:
                k("d", None)

        def src_done(ch, pack):
            if ch == "e":
                st["src_err"] = pack
            finish()

        def trig_done(ch, pack):
            if ch == "e":
                st["trig_err"] = pack
            finish()

        def start_trigger_cleanup():
            self.trig.cleanup(env, trig_done)

        self.src.cleanup(env, src_done)
        if not self.cleanup_ready:
            self.cleanup_op = start_trigger_cleanup
            self.stop.request()
            if not self.cleanup_ready:
                self.cleanup_ready = True
                return
        start_trigger_cleanup()


class StopImmediatelyStream(StreamModel):
    """doc: elements of the source; a stop request while next() is pending yields done at once (after asking the source
    to stop), the abandoned next's value is dropped, its error is reported by cleanup(), and cleanup() waits for it."""

    def __init__(self, sim, spec):
        super().__init__(sim, spec)
        self.src = build_stream(sim, spec["src"])
        self.stop = Tok()
        self.state = "not_started"
        self.next_error = None
        self.pending_cleanup = None

    def next(self, env, k):
        if env.tok.requested:
            return k("d", None)
        self.state = "active"
        h = [None]

        def on_stop():
            h[0] = None
            if self.state != "active":
                return
            self.state = "stopped"
            self.stop.request()
            k("d", None)

        def on(ch, pack):
            if self.state == "active":
                self.state = "completed"
                env.tok.unregister(h[0])
                return k(ch, pack)
            if ch == "e":
                self.next_error = pack
            if self.state == "stopped":
                self.state = "completed"
                return
            # cleanup already requested and waiting for us
            self.state = "completed"
            self.pending_cleanup()

        if env.tok.static_possible:
            h[0] = env.tok.register(on_stop)
        # the source's next() only sees the stream's own stop source
        self.src.next(Env(self.stop, -1, 0, -1), on)

    def cleanup(self, env, k):
        def run():
            def done(ch, pack):
                if self.next_error is not None:
                    e, self.next_error = self.next_error, None
                    return k("e", e)
                k(ch, pack)
            # the wrapped cleanup receiver answers no queries
            self.src.cleanup(Env(UnstoppableTok(), -1, 0, -1), done)

        if self.state == "stopped":
            self.state = "cleanup_requested"
            self.pending_cleanup = run
            return
        if self.state == "not_started":
            return k("d", None)
        run()


STREAMS = {"stop_immediately": StopImmediatelyStream, "probe": ProbeStream, "transform": TransformStream, "filter": FilterStream, "via_stream": ViaStream,
           "type_erase": TypeEraseStream, "take_until": TakeUntilStream}


def build_stream(sim, spec):
    return STREAMS[spec["s"]](sim, spec)


class ReduceStream(Node):
    def connect(self, env):
        self.env = env
        self.stream = build_stream(self.sim, self.spec["stream"])
        self.state = ("val", self.spec["init"])

    def start(self):
        self.stream.next(self.env, self.on_next)

    def on_next(self, ch, pack):
        if ch == "v":
            r, x = self.sim.call_fn(self.spec["fn"], desc_all([self.state] + list(pack)))
            if r == "throw":
                return self.stream.cleanup(self.cenv(), lambda c2, p2: self.after_error_cleanup(x, c2, p2))
            self.state = ("val", x)
            return self.stream.next(self.env, self.on_next)
        if ch == "d":
            return self.stream.cleanup(self.cenv(), self.after_done_cleanup)
        self.stream.cleanup(self.cenv(), lambda c2, p2: self.after_error_cleanup(pack, c2, p2))

    def cenv(self):
        # reduce_stream's cleanup receivers answer get_stop_token with unstoppable_token
        return self.env.with_(tok=UnstoppableTok())

    def after_done_cleanup(self, ch, pack):
        if ch == "e":
            self.done("e", pack)
        else:
            self.done("v", [self.state])

    def after_error_cleanup(self, err, ch, pack):
        if ch == "e":
            self.done("e", pack)
        else:
            self.done("e", err)


class ForEach(ReduceStream):
    def connect(self, env):
        self.env = env
        self.stream = build_stream(self.sim, self.spec["stream"])
        self.state = None

    def on_next(self, ch, pack):
        if ch == "v":
            r, x = self.sim.call_fn(self.spec["fn"], desc_all(list(pack)))
            if r == "throw":
                return self.stream.cleanup(self.cenv(), lambda c2, p2: self.after_error_cleanup(x, c2, p2))
            return self.stream.next(self.env, self.on_next)
        return super().on_next(ch, pack)

    def after_done_cleanup(self, ch, pack):
        if ch == "e":
            self.done("e", pack)
        else:
            self.done("v", [])


CLASSES["reduce_stream"] = ReduceStream
CLASSES["for_each"] = ForEach


def build(sim, spec, parent, slot):
    return CLASSES[spec["op"]](sim, spec, parent, slot)


def simulate(spec, scn_dict, observed_lines, tokkind):
    scn = Scenario(scn_dict)
    obs = Observed(observed_lines)
    sim = Sim(spec, scn, obs, tokkind)
    if tokkind == TOK_NONE:
        sim.root_tok = UnstoppableTok()
    sim.run()
    return sim
