"""Reference model of unifex::task<> for the plan interpreter in harness/src/coro.cpp (C10).

A plan is (ret, [(op, arg), ...]); see coro.cpp for the step alphabet.  The model is written
against the *documented* behaviour (docs/api_reference.md, task.hpp comments):

  * co_await of a sender: value -> returned, error -> thrown, done -> the coroutine is cancelled;
    after a sender that is not scheduler-affine the task hops back onto its scheduler
    (finally(sender, unstoppable(schedule(sched)))) before resuming / unwinding;
  * a task connected to a receiver with a stoppable token is wrapped in a stop-request thunk that
    delivers the request on the task's scheduler (unstoppable(on(sched, request_stop))) and joins
    that delivery with the task's completion;
  * at_coroutine_exit actions run in reverse registration order on every exit path after the body's
    locals are gone (return/exception) and before the awaiting parent resumes; they see an
    unstoppable token;
  * frames whose body was cancelled (done) are destroyed with the enclosing operation state,
    innermost first.
"""
from . import expr_model as M
from .expr_model import Tok, UnstoppableTok, Env, Node, run_sender, sched_leaf


def hop(sched):
    return {"op": "unstoppable", "kid": sched_leaf(sched)}


def affine(spec, sched):
    return {"op": "finally", "kid": spec, "completion": hop(sched)}


class TaskInst:
    def __init__(self, sim, plans, pid, tok, sched, on_complete):
        self.sim, self.plans, self.pid = sim, plans, pid
        self.tok, self.sched, self.on_complete = tok, sched, on_complete
        self.ret, self.steps = plans[pid]
        self.inst = sim.task_ninst
        sim.task_ninst += 1
        self.cleanups = []
        self.locals = []

    def env(self):
        return Env(self.tok, self.sched, 0, -1)

    def run(self):
        s = self.sim
        s.emit("T+ %d %d tag=%d" % (self.pid, self.inst, s.cur_tag))
        self.step(0)

    def step(self, i):
        s = self.sim
        while i < len(self.steps):
            op, a = self.steps[i]
            k = (lambda ch, pack, i=i: self.resumed(i, ch, pack))
            if op in "vVoO":
                leaf = {"op": "leaf", "id": a, "vt": "val" if op in "vV" else "void", "sd": 1,
                        "aff": 1 if op in "VO" else 0}
                spec = leaf if op in "VO" else affine(leaf, self.sched)
                return run_sender(s, spec, self.env(), k)
            if op == "c":
                child = TaskInst(s, self.plans, a, self.tok, self.sched, k)
                return child.run()
            if op == "s":
                def k2(ch, pack, k=k):
                    if ch == "v":
                        return k("v", [("val", pack[0][1] + 1)])
                    k(ch, pack)
                return run_sender(s, {"op": "task", "pid": a, "plans": self.plans}, self.env(), k2)
            if op in "xy":
                self.cleanups.append((a, op == "y", self.sched))
            elif op == "l":
                self.locals.append(a)
            elif op == "t":
                s.emit("TH %d %d %d e%d" % (self.pid, self.inst, i, a))
                return self.exit("e", ("exc", "e%d" % a))
            elif op in "ae":
                s.emit("AW %d tag=%d" % (a, s.cur_tag))
                res = ("v", [("val", a)]) if op == "a" else ("e", ("exc", "e%d" % a))
                return run_sender(s, hop(self.sched), self.env(),
                                  lambda ch, pack, res=res, k=k: k(*res) if ch == "v" else k(ch, pack))
            elif op == "z":
                # async_trace_sender completes inline (always_inline senders count as scheduler affine: no hop)
                s.emit("B %d %d %d v - tag=%d" % (self.pid, self.inst, i, s.cur_tag))
            elif op == "q":
                if self.tok.requested:
                    return self.exit("d", None)
                s.emit("B %d %d %d v - tag=%d" % (self.pid, self.inst, i, s.cur_tag))
            else:
                raise M.ModelError("step %r" % op)
            i += 1
        s.emit("T= %d %d %d" % (self.pid, self.inst, self.ret))
        self.exit("v", [("val", self.ret)])

    def resumed(self, i, ch, pack):
        s = self.sim
        if ch == "v":
            s.emit("B %d %d %d v %s tag=%d" % (self.pid, self.inst, i, M.desc_all(pack), s.cur_tag))
            return self.step(i + 1)
        self.exit(ch, pack)

    def destroy_frame(self):
        s = self.sim
        for x in reversed(self.locals):
            s.emit("~ %d" % x)
        s.emit("T~ %d %d" % (self.pid, self.inst))

    def exit(self, ch, pack):
        s = self.sim
        if ch in "ve":
            self.destroy_frame()
        else:
            # cancelled body: the frame dies with whatever owns the awaiter (innermost first)
            s.zombies.append(self)
        self.run_cleanups(len(self.cleanups) - 1, ch, pack)

    def run_cleanups(self, j, ch, pack):
        s = self.sim
        while j >= 0:
            k, with_leaf, sched = self.cleanups[j]
            s.emit("X+ %d tag=%d" % (k, s.cur_tag))
            if with_leaf:
                leaf = {"op": "leaf", "id": k, "vt": "void", "sd": 1}

                def after(c2, p2, j=j, k=k):
                    if c2 != "v":
                        raise M.ModelError("cleanup leaf must succeed")
                    s.emit("X- %d tag=%d" % (k, s.cur_tag))
                    self.run_cleanups(j - 1, ch, pack)
                # the cleanup runs with an unstoppable token; its task sees a never-stopping inplace token
                return run_sender(s, affine(leaf, sched), Env(Tok(), sched, 0, -1), after)
            s.emit("X- %d tag=%d" % (k, s.cur_tag))
            j -= 1
        self.on_complete(ch, pack)


class Task(Node):
    """task<> connected as a sender: stop-request thunk + body"""

    def connect(self, env):
        self.env = env
        s = self.sim
        if not hasattr(s, "task_ninst"):
            s.task_ninst = 0
            s.zombies = []
            s.destroy_hooks.append(self.destroy_zombies)

    def destroy_zombies(self):
        z, self.sim.zombies = self.sim.zombies, []
        for t in z:
            t.destroy_frame()

    def start(self):
        s, env = self.sim, self.env
        self.who = None
        self.h = None
        self.thunk = env.tok.static_possible
        if self.thunk:
            self.inner = Tok()
            self.refc = 1
            self.h = env.tok.register(self.on_stop)
            tok = self.inner
        else:
            tok = Tok(possible=False)
        TaskInst(s, self.spec["plans"], self.spec["pid"], tok, env.sched, self.completed).run()

    def on_stop(self):
        self.h = None
        if self.refc == 0:
            return
        self.refc += 1
        run_sender(self.sim, hop(self.env.sched), self.env, self.stop_delivered)

    def stop_delivered(self, ch, pack):
        self.inner.request()
        self.refc -= 1
        if self.refc == 0:
            self.done(*self.who)

    def completed(self, ch, pack):
        if not self.thunk:
            return self.done(ch, pack)
        self.env.tok.unregister(self.h)
        self.h = None
        self.who = (ch, pack)
        self.refc -= 1
        if self.refc == 0:
            self.done(ch, pack)


M.CLASSES["task"] = Task


def parse_plans(text):
    plans = []
    for p in text.split("/"):
        ret, _, steps = p.partition("|")
        plans.append((int(ret), [(t[0], int(t[1:])) for t in steps.split(",") if t]))
    return plans


def plan_text(plans):
    return "/".join("%d|%s" % (r, ",".join("%s%d" % (o, a) for o, a in st)) for r, st in plans)
