"""`./vf selftest [names...]`: calibration of the checks against the seeded property-breaking changes under
/verif/seeded/<name>/ (patch.diff, meta.json with "expected_checks").  Each patch is applied to /repo with
`git apply`, the expected checks are run in the quick tier (evidence redirected away from /verif/evidence) and
the patch is undone straight afterwards; /repo must be clean before.  Not part of the MANIFEST interface."""
import glob
import json
import os
import subprocess
import sys

from . import core


def main(names):
    root = os.path.join(core.VERIF, "seeded")
    dirs = sorted(d for d in glob.glob(os.path.join(root, "*")) if os.path.isdir(d))
    if names:
        dirs = [d for d in dirs if os.path.basename(d) in names]
    bad = 0
    for d in dirs:
        meta = json.load(open(os.path.join(d, "meta.json")))
        checks = meta.get("expected_checks") or [meta["property"]]
        r = subprocess.run([sys.executable, os.path.join(core.VERIF, "tools", "try_seeded.py"), d] + checks,
                           capture_output=True, text=True)
        print(r.stdout, end="")
        caught = "CAUGHT" in r.stdout
        if not caught and meta.get("status") != "not-detected":
            bad += 1
    print("[vf] selftest: %d seeded changes, %d expected detections missing" % (len(dirs), bad))
    return 1 if bad else 0
