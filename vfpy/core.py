"""Core plumbing for the /verif runtime-monitoring framework (stdlib only).

build cache, process runner, evidence writer, known-findings matcher.
"""
import concurrent.futures as cf
import fcntl
import glob
import hashlib
import json
import os
import re
import shutil
import signal
import subprocess
import sys
import time

VERIF = os.path.dirname(os.path.dirname(os.path.abspath(__file__)))
REPO = os.environ.get("VF_REPO", "/repo")
BUILD = os.path.join(VERIF, "build")
HARNESS = os.path.join(VERIF, "harness")
# calibration runs against a deliberately broken tree (tools/try_seeded.py) must not overwrite the evidence of the real tree
EVIDENCE = os.environ.get("VF_EVIDENCE_DIR") or os.path.join(VERIF, "evidence")
REPLAYS = os.path.join(os.environ["VF_EVIDENCE_DIR"], "replays") if os.environ.get("VF_EVIDENCE_DIR") else os.path.join(VERIF, "replays")
NCPU = int(os.environ.get("VF_JOBS", os.cpu_count() or 4))
GUARD = "UNIFEX_VERIF_HOOKS"


class HarnessFailure(Exception):
    """Something in the machinery (not the library) failed: exit code 2."""


def log(*a):
    print("[vf]", *a, file=sys.stderr, flush=True)


# ---------------------------------------------------------------------------
# variants
# ---------------------------------------------------------------------------
COMMON = ["-g", "-fno-omit-frame-pointer", "-pthread", "-Wno-deprecated-declarations", "-w"]
GCC_ONLY = ["-fno-lifetime-dse"]
ASAN = ["-fsanitize=address,undefined", "-fno-sanitize-recover=all"]

VARIANTS = {
    # name: (compiler, std, flags, hooks)
    "asan20d": ("g++", "20", ["-O1"] + ASAN, True),
    "asan17r": ("g++", "17", ["-O1", "-DNDEBUG"] + ASAN, True),
    "asan20r": ("g++", "20", ["-O1", "-DNDEBUG"] + ASAN, True),
    "tsan20d": ("clang++", "20", ["-O1", "-fsanitize=thread"], True),
    "tsan20r": ("clang++", "20", ["-O1", "-DNDEBUG", "-fsanitize=thread"], True),
    "plain20d": ("g++", "20", ["-O1"], True),
    "plain20r": ("g++", "20", ["-O2", "-DNDEBUG"], True),
    "nohooks17r": ("g++", "17", ["-O1", "-DNDEBUG"] + ASAN, False),
}
# the 8 configuration variants for C20
for _std in ("17", "20"):
    for _dbg in (0, 1):
        for _vis in (0, 1):
            VARIANTS["cfg%s%s%d" % (_std, "d" if _dbg else "r", _vis)] = (
                "g++", _std,
                ["-O1"] + ([] if _dbg else ["-DNDEBUG"]) +
                ["-DUNIFEX_ENABLE_CONTINUATION_VISITATIONS=%d" % _vis],
                True)


def variant_cmd(variant):
    cc, std, flags, hooks = VARIANTS[variant]
    cmd = [cc, "-std=c++" + std] + COMMON + flags
    if cc == "g++":
        cmd += GCC_ONLY
    else:
        cmd += ["-fno-sanitize=object-size"] if "undefined" in " ".join(flags) else []
    if hooks:
        cmd += ["-D" + GUARD]
    cmd += ["-I", os.path.join(REPO, "include"), "-I", os.path.join(HARNESS, "include")]
    return cmd


# ---------------------------------------------------------------------------
# hashing
# ---------------------------------------------------------------------------
def _hash_files(paths):
    h = hashlib.sha1()
    for p in sorted(paths):
        h.update(p.encode())
        try:
            with open(p, "rb") as f:
                h.update(f.read())
        except OSError:
            h.update(b"<missing>")
    return h.hexdigest()


_tree_hash = None


def repo_sources():
    return sorted(glob.glob(os.path.join(REPO, "source", "*.cpp")) +
                  glob.glob(os.path.join(REPO, "source", "linux", "*.cpp")))


def tree_hash():
    global _tree_hash
    if _tree_hash is None:
        files = []
        for root in ("include", "source"):
            for d, _, fs in os.walk(os.path.join(REPO, root)):
                for f in fs:
                    files.append(os.path.join(d, f))
        _tree_hash = _hash_files(files)[:16]
    return _tree_hash


_tk_hash = None


def toolkit_hash():
    global _tk_hash
    if _tk_hash is None:
        files = []
        for d, _, fs in os.walk(os.path.join(HARNESS, "include")):
            for f in fs:
                files.append(os.path.join(d, f))
        _tk_hash = _hash_files(files)[:16]
    return _tk_hash


# ---------------------------------------------------------------------------
# build cache
# ---------------------------------------------------------------------------
def tree_dir():
    d = os.path.join(BUILD, "t-" + tree_hash())
    os.makedirs(d, exist_ok=True)
    # touch for LRU pruning
    try:
        os.utime(d, None)
    except OSError:
        pass
    return d


def prune_build(keep=3):
    """Keep the `keep` most recently used tree directories and anything used in the last 90 minutes."""
    if not os.path.isdir(BUILD):
        return
    ds = [os.path.join(BUILD, x) for x in os.listdir(BUILD) if x.startswith("t-")]
    ds.sort(key=lambda p: os.path.getmtime(p), reverse=True)
    cur = os.path.join(BUILD, "t-" + tree_hash())
    now = time.time()
    for d in ds[keep:]:
        # a tree used within the last 90 minutes may belong to a check that is still running in another process
        if d != cur and now - os.path.getmtime(d) > 90 * 60:
            shutil.rmtree(d, ignore_errors=True)


class _Lock:
    def __init__(self, path):
        self.path = path

    def __enter__(self):
        os.makedirs(os.path.dirname(self.path), exist_ok=True)
        self.f = open(self.path, "w")
        fcntl.flock(self.f, fcntl.LOCK_EX)
        return self

    def __exit__(self, *a):
        fcntl.flock(self.f, fcntl.LOCK_UN)
        self.f.close()


def _compile_one(cmd, src, obj):
    if os.path.exists(obj):
        return None
    tmp = obj + ".tmp%d" % os.getpid()
    r = subprocess.run(cmd + ["-c", src, "-o", tmp], capture_output=True, text=True)
    if r.returncode != 0:
        return "compile failed: %s\n%s" % (" ".join(cmd + ["-c", src]), r.stderr[-6000:])
    os.replace(tmp, obj)
    return None


def build_lib(variant):
    """Compile /repo/source/**.cpp for `variant`; returns path of libunifex.a."""
    d = os.path.join(tree_dir(), "lib-" + variant)
    lib = os.path.join(d, "libunifex.a")
    if os.path.exists(lib):
        return lib
    with _Lock(os.path.join(BUILD, "lock-lib-%s-%s" % (variant, tree_hash()))):
        if os.path.exists(lib):
            return lib
        os.makedirs(d, exist_ok=True)
        t0 = time.time()
        cmd = variant_cmd(variant)
        srcs = repo_sources()
        objs = []
        jobs = []
        with cf.ThreadPoolExecutor(NCPU) as ex:
            for s in srcs:
                o = os.path.join(d, os.path.relpath(s, REPO).replace("/", "_") + ".o")
                objs.append(o)
                jobs.append(ex.submit(_compile_one, cmd, s, o))
            errs = [j.result() for j in jobs if j.result()]
        if errs:
            raise HarnessFailure("library build failed (%s):\n%s" % (variant, errs[0]))
        tmp = lib + ".tmp"
        if os.path.exists(tmp):
            os.unlink(tmp)
        subprocess.check_call(["ar", "rcs", tmp] + objs)
        os.replace(tmp, lib)
        log("built lib %s in %.1fs" % (variant, time.time() - t0))
    return lib


def _build_pch(variant, d, cmd, text):
    """precompiled header for the generated TUs (gcc only); returns extra compile flags"""
    if VARIANTS[variant][0] != "g++":
        return []
    key = hashlib.sha1((text + " ".join(cmd) + toolkit_hash()).encode()).hexdigest()[:16]
    hdr = os.path.join(d, "pch-%s.hpp" % key)
    gch = hdr + ".gch"
    if not os.path.exists(gch):
        with _Lock(os.path.join(BUILD, "lock-pch-%s" % key)):
            if not os.path.exists(gch):
                with open(hdr, "w") as f:
                    f.write(text)
                r = subprocess.run(cmd + ["-x", "c++-header", hdr, "-o", gch + ".tmp"], capture_output=True, text=True)
                if r.returncode != 0:
                    log("pch build failed (ignored): %s" % r.stderr[-500:])
                    return []
                os.replace(gch + ".tmp", gch)
    return ["-include", hdr]


def build_harness(variant, name, sources, extra_flags=(), gen_sources=(), pch_text=None):
    """Compile harness TUs (cached by content) and link with the library.

    sources: paths (absolute or relative to harness/src).
    gen_sources: list of (filename, text) generated TUs.
    returns path of executable.
    """
    lib = build_lib(variant)
    cmd = variant_cmd(variant) + list(extra_flags)
    flagkey = hashlib.sha1((" ".join(cmd) + toolkit_hash()).encode()).hexdigest()[:10]
    d = os.path.join(tree_dir(), "h-%s-%s" % (variant, name))
    os.makedirs(d, exist_ok=True)
    work = []
    for s in sources:
        p = s if os.path.isabs(s) else os.path.join(HARNESS, "src", s)
        with open(p, "rb") as f:
            key = hashlib.sha1(f.read() + flagkey.encode()).hexdigest()[:16]
        work.append((p, os.path.join(d, "%s-%s.o" % (os.path.basename(p), key))))
    for fn, text in gen_sources:
        key = hashlib.sha1(text.encode() + flagkey.encode()).hexdigest()[:16]
        p = os.path.join(d, "%s-%s.cpp" % (fn, key))
        if not os.path.exists(p):
            with open(p + ".tmp%d" % os.getpid(), "w") as f:
                f.write(text)
            os.replace(p + ".tmp%d" % os.getpid(), p)
        work.append((p, p[:-4] + ".o"))
    exekey = hashlib.sha1(("|".join(o for _, o in work)).encode()).hexdigest()[:16]
    exe = os.path.join(d, "%s-%s.exe" % (name, exekey))
    if os.path.exists(exe):
        return exe
    if pch_text and any(not os.path.exists(o) for _, o in work):
        cmd = cmd + _build_pch(variant, tree_dir(), cmd, pch_text)
    with _Lock(os.path.join(BUILD, "lock-h-%s-%s-%s" % (variant, name, tree_hash()))):
        if os.path.exists(exe):
            return exe
        t0 = time.time()
        with cf.ThreadPoolExecutor(NCPU) as ex:
            jobs = [ex.submit(_compile_one, cmd, s, o) for s, o in work]
            errs = [j.result() for j in jobs if j.result()]
        if errs:
            raise HarnessFailure("harness build failed (%s/%s):\n%s" % (variant, name, errs[0]))
        link = cmd + [o for _, o in work] + [lib, "-luring", "-ldl", "-o", exe + ".tmp"]
        r = subprocess.run(link, capture_output=True, text=True)
        if r.returncode != 0:
            raise HarnessFailure("link failed (%s/%s):\n%s" % (variant, name, r.stderr[-6000:]))
        os.replace(exe + ".tmp", exe)
        log("built harness %s/%s (%d TUs) in %.1fs" % (variant, name, len(work), time.time() - t0))
    return exe


# ---------------------------------------------------------------------------
# running
# ---------------------------------------------------------------------------
SAN_ENV = {
    "ASAN_OPTIONS": "abort_on_error=0:detect_leaks=1:detect_stack_use_after_return=1:"
                    "max_malloc_fill_size=4096:malloc_fill_byte=165:strict_string_checks=1:"
                    "exitcode=86:allocator_may_return_null=1",
    "UBSAN_OPTIONS": "print_stacktrace=1:halt_on_error=1:exitcode=87",
    "LSAN_OPTIONS": "exitcode=88",
    "TSAN_OPTIONS": "halt_on_error=0:second_deadlock_stack=1:history_size=4:exitcode=66:symbolize=0",
}


class Result:
    def __init__(self, rc, out, err, timed_out, wall):
        self.rc, self.out, self.err, self.timed_out, self.wall = rc, out, err, timed_out, wall


OUTPUT_LIMIT = 256 << 20   # bytes of stdout+stderr after which a child is considered runaway and killed


def run(cmd, env=None, timeout=600, stdin=None, cwd=None):
    """run a harness process; output goes to temporary files (not pipes) so that a runaway child cannot exhaust this
    process's memory: beyond OUTPUT_LIMIT the child is killed and reported like a hang (Result.runaway)"""
    import tempfile
    e = dict(os.environ)
    e.update(SAN_ENV)
    if env:
        e.update(env)
    t0 = time.time()
    fo = tempfile.TemporaryFile(dir="/var/tmp")
    fe = tempfile.TemporaryFile(dir="/var/tmp")
    p = subprocess.Popen(cmd, stdout=fo, stderr=fe,
                         stdin=subprocess.PIPE if stdin is not None else subprocess.DEVNULL,
                         env=e, cwd=cwd, start_new_session=True)
    if stdin is not None:
        try:
            p.stdin.write(stdin)
            p.stdin.close()
        except OSError:
            pass
    to = False
    runaway = False
    bt = ""
    delay = 0.005
    while True:
        try:
            p.wait(timeout=delay)
            break
        except subprocess.TimeoutExpired:
            pass
        delay = min(0.25, delay * 2)
        size = os.fstat(fo.fileno()).st_size + os.fstat(fe.fileno()).st_size
        if size > OUTPUT_LIMIT:
            runaway = True
        if runaway or time.time() - t0 > timeout:
            # collect a backtrace of all threads for the replay file
            try:
                r = subprocess.run(["gdb", "-p", str(p.pid), "-batch", "-ex", "thread apply all bt 12"],
                                   capture_output=True, text=True, timeout=60)
                bt = r.stdout[-20000:]
            except Exception as ex:  # noqa
                bt = "gdb failed: %r" % ex
            try:
                os.killpg(p.pid, signal.SIGKILL)
            except OSError:
                pass
            p.wait()
            to = True
            break

    def tail(f, limit):
        n = os.fstat(f.fileno()).st_size
        f.seek(max(0, n - limit) if n > limit else 0)
        d = f.read()
        f.close()
        return d

    out = tail(fo, 64 << 20)
    err = tail(fe, 8 << 20)
    if to:
        err = err + (b"\n[vf] RUNAWAY OUTPUT (killed)" if runaway else b"") + b"\n[vf] TIMEOUT backtrace:\n" + bt.encode()
    res = Result(p.returncode, out.decode("utf-8", "replace"), err.decode("utf-8", "replace"),
                 to, time.time() - t0)
    res.runaway = runaway
    return res


def parallel(fn, items, workers=None):
    with cf.ThreadPoolExecutor(workers or NCPU) as ex:
        return list(ex.map(fn, items))


# ---------------------------------------------------------------------------
# sanitizer report parsing
# ---------------------------------------------------------------------------
_FRAME = re.compile(r"^\s+#\d+ 0x[0-9a-f]+ (?:in )?(.+?)(?: /| \(|$)", re.M)


def _clean_fn(s):
    s = re.sub(r"\(.*", "", s)
    s = re.sub(r"<.*", "", s)  # drop template args (greedy on purpose)
    s = s.replace("unifex::", "")
    return s.strip()


_FRAME2 = re.compile(r"^\s+#\d+ 0x[0-9a-f]+ (?:in )?(.+?)(?: (/\S+?):\d+(?::\d+)?| \(\S+\)|$)", re.M)


def san_summary(err):
    """Return (kind, top-library-frames) for the first sanitizer report in stderr, or None.
    Frames whose function name carries no namespace (e.g. `start`) are qualified with their file name."""
    m = re.search(r"ERROR: (AddressSanitizer|LeakSanitizer): ([^\n]*)", err)
    kind = None
    if m:
        kind = "asan:" + m.group(2).split(" on ")[0].split(":")[0].strip().replace(" ", "-")
        if m.group(1) == "LeakSanitizer":
            kind = "lsan:leak"
    else:
        m = re.search(r"runtime error: ([^\n]*)", err)
        if m:
            kind = "ubsan:" + re.sub(r"0x[0-9a-f]+", "ADDR", m.group(1))[:60].replace(" ", "-")
        else:
            m = re.search(r"WARNING: ThreadSanitizer: ([^\n(]*)", err)
            if m:
                kind = "tsan:" + m.group(1).strip().replace(" ", "-")
    if not kind:
        return None
    seg = err[m.start():m.start() + 12000]
    frames = []
    for fn, path in _FRAME2.findall(seg):
        c = _clean_fn(fn)
        if c.startswith("__") or c.startswith("operator new") or c.startswith("operator delete") \
                or c in ("malloc", "free", "memcpy", "memset") or c.startswith("std::"):
            continue
        if "::" not in c and path:
            c = os.path.basename(path) + ":" + c
        frames.append(c)
        if len(frames) >= 5:
            break
    return kind, frames


_GDB_FRAME = re.compile(r"^#\d+\s+(?:0x[0-9a-f]+ in )?(.+?) \(.*?\)(?: at (\S+?):\d+)?\s*$", re.M)


def abort_summary(err, rc):
    """key for a process that died without a sanitizer report: failed assertion text (numbers masked) or rc"""
    m = re.search(r"Assertion `([^']*)' failed", err)
    if m:
        return "assert:" + re.sub(r"\d+", "N", m.group(1)).replace(" ", "_")[:80]
    if "terminate called" in err or "std::terminate" in err:
        return "terminate"
    return "crash:rc%s" % rc


def hang_summary(err):
    """top library frames of thread 1 in the gdb backtrace taken when a run timed out (where is it stuck?)"""
    i = err.find("[vf] TIMEOUT backtrace:")
    if i < 0:
        return []
    seg = err[i:]
    j = seg.find("Thread 1 ")
    if j >= 0:
        seg = seg[j:]
    frames = []
    for fn, path in _GDB_FRAME.findall(seg):
        c = _clean_fn(fn)
        if c.startswith("__") or c.startswith("std::") or c in ("sched_yield", "nanosleep", "futex_wait", "system") \
                or "spin_wait" in c or "syscall" in c or "do_system" in c or "hang_handler" in c or "waitpid" in c \
                or "signal handler" in c or "posix_spawn" in c:
            continue
        if "::" not in c and path:
            c = os.path.basename(path) + ":" + c
        frames.append(c)
        if len(frames) >= 3:
            break
    return frames


_TSAN_SKIP = ("memset", "memcpy", "operator new", "operator delete", "malloc", "free", "std::__atomic_base",
              "std::atomic", "std::__invoke", "std::thread", "decltype", "void std::", "std::_")


def _tsan_frame_fn(line):
    m = re.match(r"^\s+#\d+ (.*)$", line)
    if not m:
        return None
    t = m.group(1)
    t = re.sub(r"\s+\(BuildId: [0-9a-f]+\)\s*$", "", t)
    t = re.sub(r"\s+\([^()\s]*\+0x[0-9a-f]+\)\s*$", "", t)
    t = re.sub(r"\s+(<null>|/\S+)$", "", t)
    return _clean_fn(t)


_OFF = re.compile(r"\((\S+?)\+(0x[0-9a-f]+)\)")


def _symbolize(exe, offsets):
    """offsets -> function name (innermost non-inlined + inlined chain head) via llvm-symbolizer"""
    if not offsets:
        return {}
    tool = shutil.which("llvm-symbolizer-14") or shutil.which("llvm-symbolizer")
    out = {}
    if not tool:
        return out
    inp = "\n".join(offsets) + "\n"
    try:
        r = subprocess.run([tool, "--obj=" + exe, "--functions=linkage", "--demangle", "--inlines"],
                           input=inp, capture_output=True, text=True, timeout=300)
    except Exception:
        return out
    blocks = r.stdout.split("\n\n")
    for off, blk in zip(offsets, blocks):
        lines = [l for l in blk.split("\n") if l.strip()]
        # pairs: function, file:line ; first pair is the innermost inlined frame
        fns = lines[0::2]
        out[off] = fns
    return out


def tsan_reports(err, exe=None):
    """Split TSan output (run with symbolize=0) into report blocks; returns list of (kind, key, text).
    key = first 3 interesting functions of each of the two stacks involved (symbolized offline, because
    TSan's own symbolizer garbles the very long template names of this code base)."""
    blocks = re.split(r"(?m)^={18}\n", err)
    reports = []
    need = []
    for b in blocks:
        m = re.search(r"WARNING: ThreadSanitizer: ([^\n(]*)", b)
        if not m:
            continue
        kind = m.group(1).strip().replace(" ", "-")
        stacks = []
        cur = None
        for ln in b.split("\n"):
            if re.match(r"^  \S", ln):
                if cur:
                    stacks.append(cur)
                cur = [ln.strip(), []]
                continue
            mm = re.match(r"^\s+#\d+ (.*)$", ln)
            if mm and cur is not None:
                mo = _OFF.search(ln)
                if mo and exe and os.path.basename(exe) == mo.group(1):
                    cur[1].append(("off", mo.group(2)))
                    need.append(mo.group(2))
                else:
                    f = _tsan_frame_fn(ln)
                    cur[1].append(("fn", f or "?"))
        if cur:
            stacks.append(cur)
        reports.append((kind, stacks, b))
    sym = _symbolize(exe, sorted(set(need))) if exe else {}
    out = []
    for kind, stacks, b in reports:
        tops = []
        text_extra = []
        for hdr, frames in stacks:
            if hdr.startswith("Thread ") or hdr.startswith("Location") or hdr.startswith("Mutex"):
                continue
            names = []
            for t, v in frames:
                if t == "off":
                    for fn in sym.get(v, ["?"]):
                        names.append(_clean_fn(fn))
                else:
                    names.append(v)
            names = [n for n in names if n and n != "?" and not any(n.startswith(x) for x in _TSAN_SKIP)]
            text_extra.append(hdr + "\n    " + "\n    ".join(names[:12]))
            tops.append(">".join(names[:3]))
            if len(tops) == 2:
                break
        out.append((kind, "|".join(sorted(tops)), "symbolized stacks:\n" + "\n".join(text_extra) + "\n\nraw report:\n" + b))
    return out


# ---------------------------------------------------------------------------
# findings
# ---------------------------------------------------------------------------
def load_findings():
    p = os.path.join(VERIF, "known_findings.json")
    if not os.path.exists(p):
        return []
    with open(p) as f:
        return json.load(f).get("findings", [])


class Verdict:
    """Collects violations / inconclusives for one property check."""

    def __init__(self, prop):
        self.prop = prop
        self.viol = {}      # key -> (count, first replay path, what)
        self.inconclusive = []
        self.known_seen = {}
        self.findings = [f for f in load_findings() if f.get("property") == prop]

    def violation(self, key, what, replay_text):
        if key in self.viol:
            self.viol[key][0] += 1
            return
        d = os.path.join(REPLAYS, self.prop)
        os.makedirs(d, exist_ok=True)
        fn = os.path.join(d, re.sub(r"[^A-Za-z0-9_.:-]+", "_", key)[:150] + ".txt")
        with open(fn, "w") as f:
            f.write("key: %s\nwhat: %s\n\n%s\n" % (key, what, replay_text))
        self.viol[key] = [1, fn, what]

    def note_inconclusive(self, what):
        self.inconclusive.append(what)

    def match_known(self, key):
        for f in self.findings:
            if f.get("status") == "known":
                pat = f.get("key")
                if pat == key or re.fullmatch(pat, key):
                    return f
        return None

    def has_new(self):
        """any violation that is not a listed known finding?"""
        return any(self.match_known(k) is None for k in self.viol)

    def finish(self):
        """Print KNOWN-FINDING / VIOLATION lines; return (exit code, n_new_violations)."""
        new = 0
        grouped = {}
        for key, (n, path, what) in sorted(self.viol.items()):
            f = self.match_known(key)
            if f:
                self.known_seen[key] = n
                g = grouped.setdefault(id(f), [f, 0, []])
                g[1] += n
                g[2].append(key)
            else:
                new += 1
                print("VIOLATION property=%s replay=%s" % (self.prop, path), flush=True)
                print("  key=%s (x%d): %s" % (key, n, what), flush=True)
        for f, n, keys in grouped.values():
            # one line per listed finding, however many scenario classes reproduced it
            print("KNOWN-FINDING: property=%s %s [seen %d times under %d violation keys, e.g. %s]" %
                  (self.prop, f.get("what", ""), n, len(keys), keys[0]), flush=True)
        return (1 if new else 0), new


def require_observed(verdict, missing, what):
    """a stress run that observed none of some required outcome classes is a harness failure (exit 2) - unless the
    run also produced a new violation (e.g. the process of that mode died on a sanitizer report or an assertion):
    then the violation is the verdict and the missing outcomes are its consequence"""
    if missing and not verdict.has_new():
        raise HarnessFailure("%s observed none of: %s" % (what, missing))


def write_evidence(prop, tier, seed, level, coverage, wall_s, violations, assumptions):
    os.makedirs(EVIDENCE, exist_ok=True)
    ev = {
        "property_id": prop, "tier": tier, "seed": int(seed), "level": level,
        "coverage": coverage, "assumptions": assumptions,
        "wall_s": round(wall_s, 2), "violations": int(violations),
    }
    # minimal self-validation (full schema validation is done in `vf validate`)
    c = coverage
    for k in ("evaluations", "distinct_nontrivial", "rule", "samples"):
        if k not in c:
            raise HarnessFailure("evidence lacks coverage.%s" % k)
    if c["evaluations"] < 1 or c["distinct_nontrivial"] < 2 or not c["samples"]:
        raise HarnessFailure("monitors observed (almost) nothing: evaluations=%s distinct=%s"
                             % (c["evaluations"], c["distinct_nontrivial"]))
    p = os.path.join(EVIDENCE, prop + ".json")
    with open(p + ".tmp", "w") as f:
        json.dump(ev, f, indent=1, sort_keys=True, default=str)
    os.replace(p + ".tmp", p)
    return p


def seed():
    try:
        return int(os.environ.get("VERIF_SEED", "1"))
    except ValueError:
        return 1
