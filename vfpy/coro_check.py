"""C10 engine: generated task<> plans x scenarios, run in harness/src/coro.cpp, judged by
(a) the online monitors of det.hpp (ledger, counting stop token, allocator, poisoned arena, ASan/UBSan),
(b) direct rules over the event log stated by the property, and
(c) comparison with the reference model vfpy/coro_model.py."""
import hashlib
import os
import random
import re
import tempfile
from collections import Counter

from . import core, expr_check, expr_model as M, coro_model

SCHED = M.RCVR_SCHED

_ENV = re.compile(r" sched=-?\d+ alloc=-?\d+ cookie=-?\d+")


# ---------------------------------------------------------------------------
# plans
# ---------------------------------------------------------------------------
STEP_W = [("v", 30), ("V", 10), ("o", 20), ("O", 8), ("c", 22), ("s", 8), ("x", 18), ("y", 10), ("l", 18),
          ("a", 8), ("e", 4), ("q", 10), ("t", 4), ("z", 5)]


def gen_plans(rng, max_plans=4, max_steps=7):
    n = rng.randint(1, max_plans)
    ids = {"leaf": 10, "cl": 30, "loc": 50, "thr": 90}

    def fresh(kind):
        ids[kind] += 1
        return ids[kind] - 1

    plans = []
    for pid in range(n):
        steps = []
        ns = rng.randint(1, max_steps)
        for i in range(ns):
            ops = [(o, w) for o, w in STEP_W if not (o in "cs" and pid == n - 1)]
            o = rng.choices([x[0] for x in ops], [x[1] for x in ops])[0]
            if o == "t" and i != ns - 1 and rng.random() < 0.8:
                o = "v"
            if o in "vVoO":
                steps.append((o, fresh("leaf")))
            elif o in "cs":
                steps.append((o, rng.randint(pid + 1, n - 1)))
            elif o in "xy":
                steps.append((o, fresh("cl")))
            elif o == "l":
                steps.append((o, fresh("loc")))
            elif o in "ae":
                steps.append((o, fresh("thr")))
            elif o == "t":
                steps.append((o, fresh("thr")))
            else:
                steps.append((o, 0))
        plans.append((70 + pid, steps))
    # make every plan reachable: plan p+1 is called from some earlier plan
    for pid in range(1, n):
        if not any(o in "cs" and a == pid for q in range(pid) for o, a in plans[q][1]):
            q = rng.randrange(pid)
            st = plans[q][1]
            st.insert(rng.randint(0, len(st)), (rng.choice("ccs"), pid))
    return plans


def plan_class(plans):
    return "+".join(sorted(set(o for _, st in plans for o, _ in st)))


def leaf_ids(plans):
    awaited = [a for _, st in plans for o, a in st if o in "vVoO"]
    cleanup = [a for _, st in plans for o, a in st if o == "y"]
    return awaited, cleanup


# ---------------------------------------------------------------------------
# scenarios
# ---------------------------------------------------------------------------
def scenarios_for(plans, prog, rng, budget):
    awaited, cleanup = leaf_ids(plans)
    stoppable = prog != 2
    out = []

    def base(mode, react, sched_mode):
        sc = {"def": (0, mode, react, rng.choice((0, 3, 5))), "cfg": {}}
        sc["cfg"][(SCHED, -1)] = (0, sched_mode, 0, SCHED)
        for k in cleanup:
            sc["cfg"][(k, -1)] = (0, rng.choice((0, mode)), 0, rng.choice((0, 4)))
            # explicit entries for repeated starts too (a plan may be instantiated several times)
        return sc

    def add(sc):
        i = len(out) + rng.randrange(4)
        sc["dic"] = i & 1
        sc["fsc"] = (i >> 1) & 1 if stoppable else 0
        sc["poison"] = i % 3
        out.append(sc)

    add(base(0, 0, 0))
    add(base(0, 1, 0))
    add(base(1, 1, 0))
    add(base(1, 2, 1))
    add(base(1, 0, 1))
    # every awaited leaf failing / done
    for lid in awaited:
        for oc in (1, 2):
            for mode in (0, 1):
                sc = base(rng.choice((0, 1)), 1, rng.choice((0, 1)))
                sc["cfg"][(lid, -1)] = (oc, mode, 1, rng.choice((0, 3)))
                add(sc)
    if stoppable:
        for react in (1, 2):
            for sm in (0, 1):
                for st in ((1, 0, 0), (2, 0, 0), (6, 0, 0)):
                    sc = base(1, react, sm)
                    sc["stop"] = st
                    add(sc)
                for lid in awaited + cleanup + [SCHED]:
                    for n in ((0, 1, 2) if lid == SCHED else (0,)):
                        sc = base(rng.choice((0, 1, 1)), react, sm)
                        sc["stop"] = (3, lid, n)
                        add(sc)
                for step in range(0, 2 * len(awaited) + 3):
                    sc = base(1, react, sm)
                    sc["stop"] = (4, step, 0)
                    if rng.random() < 0.5:
                        p = list(awaited) + [SCHED]
                        rng.shuffle(p)
                        sc["prio"] = p
                    add(sc)
    # seeded mixes
    while len(out) < budget:
        sc = base(rng.choice((0, 1)), rng.choice((0, 1, 2)), rng.choice((0, 1)))
        for lid in awaited:
            if rng.random() < 0.5:
                sc["cfg"][(lid, -1)] = (rng.choice((0, 0, 1, 2)), rng.choice((0, 1)), rng.choice((0, 1, 2)),
                                        rng.choice((0, 3, 5)))
        if stoppable and rng.random() < 0.7:
            k = rng.choice((1, 2, 3, 4, 4, 4, 6))
            if k == 3:
                sc["stop"] = (3, rng.choice(awaited + [SCHED]) if awaited else SCHED, rng.choice((0, 0, 1)))
            elif k == 4:
                sc["stop"] = (4, rng.randrange(0, 2 * len(awaited) + 4), 0)
            else:
                sc["stop"] = (k, 0, 0)
        if rng.random() < 0.4:
            p = list(awaited) + [SCHED] + list(cleanup)
            rng.shuffle(p)
            sc["prio"] = p
        add(sc)
    return out[:budget]


def scn_line(prog, sid, sc, plans):
    return expr_check.scn_line(prog, sid, sc) + " plan=" + coro_model.plan_text(plans)


# ---------------------------------------------------------------------------
# judging
# ---------------------------------------------------------------------------
def canon(lines):
    return [_ENV.sub("", l) for l in expr_check.comparable(lines)]


def classify(exp, obs):
    se, so = expr_check.segments(exp), expr_check.segments(obs)
    for i in range(max(len(se), len(so))):
        a = se[i] if i < len(se) else []
        b = so[i] if i < len(so) else []
        if a == b:
            continue
        ca, cb = Counter(a), Counter(b)
        missing = list((ca - cb).elements())
        extra = list((cb - ca).elements())
        detail = "segment %d: expected-not-observed=%s observed-not-expected=%s" % (i, missing[:4], extra[:4])
        if not missing and not extra:
            # same events, different order inside one reaction: order of cleanup actions, of cleanup vs parent
            # resumption and of local destruction vs cleanup is part of the property
            ka = [x for x in a if x.split(" ", 1)[0] in ("X+", "X-", "B", "T~", "~", "O", "T+", "T=", "TH")]
            kb = [x for x in b if x.split(" ", 1)[0] in ("X+", "X-", "B", "T~", "~", "O", "T+", "T=", "TH")]
            if ka == kb:
                continue
            return "order", "segment %d: expected order %s observed %s" % (i, ka[:12], kb[:12])
        kinds = set(x.split(" ", 1)[0] for x in missing + extra)
        if "PENDING" in kinds:
            return "lost-completion", detail
        if "O" in kinds:
            return "result-mapping", detail
        if kinds & {"X+", "X-"}:
            return "cleanup-actions", detail
        if kinds & {"~", "T~"}:
            return "frame-or-locals", detail
        if kinds & {"B", "T+", "T=", "TH", "AW"}:
            return "resumption", detail
        if kinds & {"Ls", "Lt", "S", "S."}:
            return "stop-delivery", detail
        return "awaited-senders", detail
    return None


class CoroRun:
    def __init__(self, seed, n_plansets, budget, variant="asan20d"):
        self.seed, self.variant, self.budget = seed, variant, budget
        rng = random.Random(seed * 104729 + 7)
        self.plansets = [gen_plans(rng) for _ in range(n_plansets)]
        self.rng = rng
        self.stats = {"scenarios": 0, "distinct": set(), "inconclusive": 0, "crashes": 0, "cleanups_run": 0,
                      "frames": 0, "done_exits": 0, "error_exits": 0, "value_exits": 0, "stops_delivered": 0,
                      "outcomes": Counter()}
        self.samples = []

    def build(self):
        self.exe = core.build_harness(self.variant, "coro", ["coro.cpp"])

    def run_batch(self, lines):
        er = expr_check.ExprRun.__new__(expr_check.ExprRun)
        er.exe = self.exe
        return expr_check.ExprRun.run_batch(er, lines)

    def execute(self, verdicts):
        """verdicts: {"C10": Verdict, optionally "C04": Verdict, "C02": Verdict}"""
        jobs = []
        sid = 0
        for pi, plans in enumerate(self.plansets):
            for prog in (0, 1, 2):
                b = self.budget if prog < 2 else max(8, self.budget // 6)
                for sc in scenarios_for(plans, prog, self.rng, b):
                    sid += 1
                    jobs.append((sid, pi, prog, sc))
        chunks = [jobs[i::core.NCPU] for i in range(core.NCPU)]

        def run_chunk(chunk):
            lines = [scn_line(prog, sid, sc, self.plansets[pi]) for sid, pi, prog, sc in chunk]
            return chunk, self.run_batch(lines)

        for chunk, (results, crashes) in core.parallel(run_chunk, [c for c in chunks if c]):
            byid = {j[0]: j for j in chunk}
            for sid, pi, prog, sc in chunk:
                info = results.get(sid)
                if info is None:
                    self.stats["inconclusive"] += 1
                    continue
                self.check(sid, pi, prog, sc, info, verdicts)
            for (csid, err, rc, timed_out) in crashes:
                self.stats["crashes"] += 1
                j = byid.get(csid)
                plans = self.plansets[j[1]] if j else []
                ss0 = core.san_summary(err)
                if timed_out and ss0:
                    # the sanitizer had already reported when the watchdog fired (it was still printing the report):
                    # the report is the finding, not the wait
                    key_o = ss0[0] + ":" + ">".join(ss0[1][:4])
                elif timed_out:
                    hf = core.hang_summary(err)
                    key_o = "hang" + (":" + ">".join(hf) if hf else "")
                elif rc == 89 and "event log overflow" in err:
                    key_o = "runaway:event-log-overflow"
                else:
                    ss = core.san_summary(err)
                    key_o = (ss[0] + ":" + ">".join(ss[1][:4])) if ss else core.abort_summary(err, rc)
                info = results.get(csid, {"lines": []}) if csid is not None else {"lines": []}
                text = "plans: %s\nscenario: %s\nvariant: %s seed: %d rc=%s\n\npartial log:\n%s\n\nstderr:\n%s\n" % (
                    coro_model.plan_text(plans), scn_line(j[2], 0, j[3], plans) if j else "?", self.variant,
                    self.seed, rc, "\n".join(info["lines"]), err[-6000:])
                for p in verdicts:
                    if p not in ("C10", "C02", "C04") or (p == "C04" and "stop" not in key_o.lower()):
                        continue
                    verdicts[p].violation("%s:coro:%s:%s" % (p, plan_class(plans), key_o),
                                          "process died: " + key_o, text)

    def report(self, verdicts, prop, plans, prog, sc, oracle, what, lines, exp=None):
        if prop not in verdicts:
            return
        key = "%s:coro:%s:%s" % (prop, plan_class(plans), oracle)
        text = "plans: %s\nscenario: %s\nvariant: %s seed: %d\n\nobserved log:\n%s\n" % (
            coro_model.plan_text(plans), scn_line(prog, 0, sc, plans), self.variant, self.seed, "\n".join(lines))
        if exp is not None:
            text += "\nexpected (model):\n" + "\n".join(exp) + "\n"
        verdicts[prop].violation(key, what, text)

    def check(self, sid, pi, prog, sc, info, verdicts):
        plans = self.plansets[pi]
        lines = info["lines"]
        st = self.stats
        st["scenarios"] += 1
        rep = lambda prop, oracle, what, exp=None: self.report(verdicts, prop, plans, prog, sc, oracle, what, lines, exp)
        for l in lines:
            if l.startswith("V "):
                txt = l[2:]
                owner = expr_check.online_owner(txt)
                key = re.sub(r"\d+", "N", txt.split(" n=")[0]).replace(" ", "_")
                if owner == "C02":
                    # object / frame ledger: "every coroutine frame is destroyed exactly once", locals destroyed
                    rep("C10", "online:" + key, txt)
                    rep("C02", "online:" + key, txt)
                elif owner == "C01":
                    rep("C10", "online:" + key, txt)
                else:
                    rep(owner, "online:" + key, txt)
        if not info["complete"]:
            return
        # direct rules -------------------------------------------------------------
        tplus = Counter(tuple(l.split(" ")[1:3]) for l in lines if l.startswith("T+ "))
        tdead = Counter(tuple(l.split(" ")[1:3]) for l in lines if l.startswith("T~ "))
        st["frames"] += sum(tplus.values())
        if tplus != tdead:
            rep("C10", "rule:frame-not-destroyed-exactly-once",
                "frames started %s destroyed %s" % (dict(tplus - tdead), dict(tdead - tplus)))
        xp = [l.split(" ")[1] for l in lines if l.startswith("X+ ")]
        xm = [l.split(" ")[1] for l in lines if l.startswith("X- ")]
        st["cleanups_run"] += len(xp)
        if Counter(xp) != Counter(xm):
            rep("C10", "rule:cleanup-action-not-finished", "X+ %s X- %s" % (xp, xm))
        nO = [l for l in lines if l.startswith("O ")]
        if len(nO) == 1:
            oi = lines.index(nO[0])
            late = [l for l in lines[oi + 1:] if l.startswith("X+ ") or l.startswith("X- ") or l.startswith("B ")]
            if late:
                rep("C10", "rule:coroutine-ran-after-completion", "after %s: %s" % (nO[0], late[:3]))
            st["outcomes"][nO[0].split(" ")[1]] += 1
        # trait: task<> is scheduler affine
        if nO:
            otag = int(nO[0].split("tag=")[1].split(" ")[0])
            if otag != M.RCVR_TAG and "C11" in verdicts:
                rep("C11", "trait:scheduler-affine-violated", nO[0])
        # model ----------------------------------------------------------------------
        spec = {"op": "task", "pid": 0, "plans": plans}
        try:
            sim = M.simulate(spec, sc, lines, prog)
        except (M.ModelError, RecursionError):
            st["inconclusive"] += 1
            return
        exp, obs = canon(sim.out), canon(lines)
        if exp != obs:
            d = classify(exp, obs)
            if d is not None:
                rep("C10", "model:" + d[0], d[1], exp)
        st["stops_delivered"] += sum(1 for l in lines if l.startswith("Ls "))
        order = tuple(l for l in lines if l.split(" ", 1)[0] in ("D", "S", "Ls", "Lc", "X+", "T~", "TH"))
        nontrivial = any(l.split(" ", 1)[0] in ("D", "S", "TH", "X+") for l in lines)
        if nontrivial:
            st["distinct"].add(hashlib.sha1(("%d|%s" % (pi, "|".join(order))).encode()).hexdigest()[:12])
        if len(self.samples) < 5 and nontrivial and (st["scenarios"] % 211 == 0 or len(self.samples) < 2):
            self.samples.append({"plans": coro_model.plan_text(plans), "scenario": expr_check.scn_line(prog, 0, sc),
                                 "observed_log": [l for l in lines if l.split(" ", 1)[0] in
                                                  ("T+", "B", "D", "S", "Ls", "X+", "X-", "~", "T~", "TH", "O")][:30]})

    def coverage(self):
        s = self.stats
        return {
            "evaluations": s["scenarios"],
            "distinct_nontrivial": len(s["distinct"]),
            "plan_sets": len(self.plansets),
            "coroutine_frames_observed": s["frames"],
            "cleanup_actions_observed": s["cleanups_run"],
            "stop_requests_seen_by_awaited_leaves": s["stops_delivered"],
            "root_outcomes": dict(s["outcomes"]),
            "crashed_processes": s["crashes"],
            "inconclusive": s["inconclusive"],
            "samples": self.samples,
        }
