"""Generator of sender-expression programs (DESIGN.md 4.1): spec trees + C++ text."""
import json
import random

HEADERS = """
#include <vf/det.hpp>
#include <unifex/allocate.hpp>
#include <unifex/any_sender_of.hpp>
#include <unifex/defer.hpp>
#include <unifex/dematerialize.hpp>
#include <unifex/done_as_optional.hpp>
#include <unifex/finally.hpp>
#include <unifex/into_variant.hpp>
#include <unifex/just.hpp>
#include <unifex/just_done.hpp>
#include <unifex/just_error.hpp>
#include <unifex/just_from.hpp>
#include <unifex/just_void_or_done.hpp>
#include <unifex/let_done.hpp>
#include <unifex/let_error.hpp>
#include <unifex/let_value.hpp>
#include <unifex/let_value_with.hpp>
#include <unifex/let_value_with_stop_source.hpp>
#include <unifex/let_value_with_stop_token.hpp>
#include <unifex/materialize.hpp>
#include <unifex/on.hpp>
#include <unifex/repeat_effect_until.hpp>
#include <unifex/retry_when.hpp>
#include <unifex/sequence.hpp>
#include <unifex/config.hpp>
#if !UNIFEX_NO_COROUTINES
// (stop_if_requested.hpp includes await_transform.hpp, which needs coroutines: C++20 only)
#include <unifex/stop_if_requested.hpp>
#endif
#include <unifex/stop_when.hpp>
#include <unifex/then.hpp>
#include <unifex/unstoppable.hpp>
#include <unifex/upon_done.hpp>
#include <unifex/upon_error.hpp>
#include <unifex/via.hpp>
#include <unifex/when_all.hpp>
#include <unifex/when_any.hpp>
#include <unifex/when_all_range.hpp>
#include <unifex/variant_sender.hpp>
#include <unifex/with_query_value.hpp>
#include <unifex/filter_stream.hpp>
#include <unifex/for_each.hpp>
#include <unifex/reduce_stream.hpp>
#include <unifex/stop_immediately.hpp>
#include <unifex/take_until.hpp>
#include <unifex/transform_stream.hpp>
#include <unifex/type_erased_stream.hpp>
#include <unifex/via_stream.hpp>
"""

# weight tables -------------------------------------------------------------
TERMINALS = [("leaf", 10), ("just", 1), ("just_from", 1), ("jvod", 1), ("sir", 1)]
UNARY = [("then", 5), ("upon_error", 2), ("upon_done", 2), ("let_value", 5), ("let_error", 3),
         ("let_done", 3), ("finally", 4), ("via", 3), ("on", 3), ("with_query", 2),
         ("unstoppable", 2), ("demat", 2), ("allocate", 1), ("lvw_stop_source", 3),
         ("lvw_stop_token", 2), ("let_value_with", 1), ("defer", 1), ("retry_when", 2), ("any_sender", 2)]
NARY = [("sequence", 4), ("when_all", 6), ("stop_when", 5), ("when_any", 2)]
VAL_ONLY = [("materialize_c", 2), ("dao_c", 2), ("into_variant_c", 1)]
VOID_ONLY = [("repeat_effect_until", 2)]
# operators that only the *extension programs* use (separate random stream, see extension_programs()): the main
# programs of a seed are unchanged by their existence
EXT_NARY = [("when_all_range", 8), ("variant_sender", 6)]


LVALUE_OK = {"then", "upon_error", "upon_done", "with_query", "unstoppable", "demat", "sequence", "finally", "via"}


def pick(rng, table):
    tot = sum(w for _, w in table)
    r = rng.random() * tot
    for k, w in table:
        r -= w
        if r <= 0:
            return k
    return table[-1][0]


class Gen:
    def __init__(self, rng, max_depth=3, max_leaves=5, ops=None, ext=False):
        self.ext = ext
        self.rng = rng
        self.max_depth = max_depth
        self.max_leaves = max_leaves
        self.ops = ops  # optional whitelist of op names
        self.reset()

    def reset(self):
        self.n_leaf = 0
        self.n_sched = 0
        self.n_fn = 0
        self.n_val = 0
        self.n_any = 0
        self.lv_ok = True
        self.in_loop = 0

    def leaf_id(self):
        self.n_leaf += 1
        return self.n_leaf

    def sched_id(self):
        self.n_sched += 1
        return 99 + self.n_sched  # 100, 101, ...

    def fn_id(self):
        self.n_fn += 1
        return 9 + self.n_fn

    def val_id(self):
        self.n_val += 1
        return 499 + self.n_val

    def allowed(self, table):
        if self.ops is None:
            return table
        t = [(k, w) for k, w in table if k in self.ops]
        return t

    # ------------------------------------------------------------------
    def program(self):
        self.reset()
        vt = self.rng.choice(["val", "val", "void"])
        spec = self.expr(vt, self.max_depth)
        return spec

    def leaf(self, vt, copyable_ctx=True):
        r = self.rng.random()
        blocking = "inline" if r < 0.12 else "maybe"
        sd = 0 if self.rng.random() < 0.15 else 1
        aff = 1 if self.rng.random() < 0.15 else 0
        d = {"op": "leaf", "id": self.leaf_id(), "vt": vt, "blocking": blocking, "sd": sd, "aff": aff}
        if vt == "val" and self.rng.random() < 0.25:
            d["mv"] = 1   # value type whose move constructor is a throw point (vf::mval)
        if vt == "val" and self.rng.random() < 0.25:
            d["inop"] = 1   # the value lives in the leaf's operation state (receivers must take it before destroying the op)
        return d

    def with_errors(self, spec, vt):
        """some adaptors do not compile over sources that declare no error types"""
        if may_have_empty_errors(spec):
            return {"op": "then", "kid": spec, "fn": self.fn_id(), "ret": vt}
        return spec

    def terminal(self, vt):
        if self.n_leaf >= self.max_leaves:
            k = pick(self.rng, [t for t in TERMINALS if t[0] != "leaf"])
        else:
            k = pick(self.rng, TERMINALS)
        if k == "leaf":
            return self.leaf(vt)
        if k == "just":
            return {"op": "just", "vals": [self.val_id()] if vt == "val" else []}
        if k == "just_from":
            return {"op": "just_from", "fn": self.fn_id(), "ret": vt}
        if vt == "void" and k == "jvod":
            return {"op": "just_void_or_done", "b": self.rng.choice([0, 1, 1])}
        if vt == "void" and k == "sir":
            return {"op": "stop_if_requested"}
        return self.leaf(vt)

    def expr(self, vt, depth):
        if depth <= 0 or self.n_leaf >= self.max_leaves or self.rng.random() < 0.12:
            return self.terminal(vt)
        table = list(UNARY) + list(NARY) + (VAL_ONLY if vt == "val" else VOID_ONLY)
        table = self.allowed(table) or table
        if self.ext:
            table = table + EXT_NARY
        if self.in_loop:
            # retry_when / repeat_effect_until connect their source as an lvalue, which only some
            # adaptors support: stay within a set known to be lvalue-connectable
            table = [(k, w) for k, w in table if k in LVALUE_OK] or [("then", 1)]
        k = pick(self.rng, table)
        d = depth - 1
        E = self.expr
        if k == "then":
            pvt = self.rng.choice(["val", "void"])
            return {"op": "then", "kid": E(pvt, d), "fn": self.fn_id(), "ret": vt}
        if k == "upon_error":
            return {"op": "upon_error", "kid": self.with_errors(E(vt, d), vt), "fn": self.fn_id(), "ret": vt}
        if k == "upon_done":
            return {"op": "upon_done", "kid": E(vt, d), "fn": self.fn_id(), "ret": vt}
        if k == "let_value":
            pvt = self.rng.choice(["val", "void"])
            p = E(pvt, d)
            return {"op": "let_value", "kid": p, "fn": self.fn_id(), "body": E(vt, d)}
        if k == "let_error":
            if self.rng.random() < 0.2 and not self.in_loop:
                p = {"op": "just_error", "eid": self.val_id()}
            else:
                p = self.with_errors(E(vt, d), vt)
            return {"op": "let_error", "kid": p, "fn": self.fn_id(), "body": E(vt, d)}
        if k == "let_done":
            if self.rng.random() < 0.2:
                p = {"op": "just_done"}
            else:
                p = E(vt, d)
            return {"op": "let_done", "kid": p, "fn": self.fn_id(), "body": E(vt, d)}
        if k == "finally":
            return {"op": "finally", "kid": E(vt, d), "completion": E("void", d)}
        if k == "via":
            return {"op": "via", "kid": E(vt, d), "sched": self.sched_id()}
        if k == "on":
            return {"op": "on", "kid": E(vt, d), "sched": self.sched_id()}
        if k == "with_query":
            return {"op": "with_query", "q": "cookie", "value": 70 + self.rng.randrange(9), "kid": E(vt, d)}
        if k == "unstoppable":
            return {"op": "unstoppable", "kid": E(vt, d)}
        if k == "demat":
            return {"op": "dematerialize", "kid": {"op": "materialize", "kid": E(vt, d)}}
        if k == "allocate":
            return {"op": "allocate", "kid": E(vt, d)}
        if k == "lvw_stop_source":
            return {"op": "lvw_stop_source", "fn": self.fn_id(), "body": E(vt, d)}
        if k == "lvw_stop_token":
            return {"op": "lvw_stop_token", "fn": self.fn_id(), "body": E(vt, d)}
        if k == "let_value_with":
            return {"op": "let_value_with", "gfn": self.fn_id(), "fn": self.fn_id(), "body": E(vt, d)}
        if k == "defer":
            return {"op": "defer", "fn": self.fn_id(), "body": E(vt, d)}
        if k == "retry_when":
            self.in_loop += 1
            src = self.with_errors(E(vt, d), vt)
            self.in_loop -= 1
            return {"op": "retry_when", "kid": src, "fn": self.fn_id(), "body": E("void", d)}
        if k == "any_sender":
            return {"op": "any_sender", "kid": E(vt, d), "vt": vt}
        if k == "sequence":
            n = self.rng.choice([2, 2, 3])
            return {"op": "sequence", "kids": [E("void", d) for _ in range(n - 1)] + [E(vt, d)]}
        if k == "when_all":
            n = self.rng.choice([2, 2, 3])
            kids = [E(self.rng.choice(["val", "void"]), d) for _ in range(n)]
            w = {"op": "when_all", "kids": kids}
            return {"op": "then", "kid": w, "fn": self.fn_id(), "ret": vt}
        if k == "when_any":
            # when_any is a deep composition (just | let_value | let_value_with | when_all | let_done | let_value);
            # to keep generated TUs compilable in reasonable time its children are terminals and a program
            # contains at most one when_any
            if self.n_any >= 1:
                return self.leaf(vt)
            self.n_any += 1
            n = self.rng.choice([2, 2, 3])
            kids = [E(vt, 0) for _ in range(n)]
            for k2 in kids:
                k2.pop("mv", None)   # when_any needs the first sender's value tuple constructible from every other's
            return {"op": "when_any", "kids": kids}
        if k == "when_all_range":
            return self.when_all_range(vt)
        if k == "variant_sender":
            return self.variant_sender(vt, d)
        if k == "stop_when":
            # debug builds wrap receivers in try/catch->set_error(exception_ptr), which
            # stop_when's result variant cannot hold when the source declares no errors
            src = self.with_errors(E(vt, d), vt)
            return {"op": "stop_when", "kid": src, "trigger": E("void", d)}
        if k == "materialize_c":
            return {"op": "then", "kid": {"op": "materialize", "kid": E(self.rng.choice(["val", "void"]), d)},
                    "fn": self.fn_id(), "ret": "val"}
        if k == "dao_c":
            return {"op": "then", "kid": {"op": "done_as_optional", "kid": E("val", d)},
                    "fn": self.fn_id(), "ret": "val"}
        if k == "into_variant_c":
            return {"op": "then", "kid": {"op": "into_variant", "kid": E(self.rng.choice(["val", "void"]), d)},
                    "fn": self.fn_id(), "ret": "val"}
        if k == "repeat_effect_until":
            self.in_loop += 1
            src = E("void", d)
            self.in_loop -= 1
            return {"op": "repeat_effect_until", "kid": src, "fn": self.fn_id(),
                    "until": self.rng.choice([1, 2, 3])}
        raise AssertionError(k)


def _gen_when_all_range(self, vt):
    """when_all_range(std::vector<Leaf>): 0-3 leaves of one type (the vector's element type), result vector<val>"""
    n = self.rng.choice([0, 1, 2, 2, 3, 3])
    n = min(n, max(0, self.max_leaves - self.n_leaf))
    proto = self.leaf("val")
    self.n_leaf -= 1
    kids = []
    for _ in range(n):
        k = dict(proto)
        k["id"] = self.leaf_id()
        kids.append(k)
    proto["id"] = 0
    w = {"op": "when_all_range", "kids": kids, "proto": proto}
    return {"op": "then", "kid": w, "fn": self.fn_id(), "ret": vt}


def _gen_variant_sender(self, vt, d):
    """variant_sender<A, B> holding A or B; B is a bare just_done()/just_error() so that the two alternatives (and
    their operation types) are certainly different types"""
    a = self.expr(vt, d)
    if a["op"] in ("just_done", "just_error"):
        a = {"op": "then", "kid": a, "fn": self.fn_id(), "ret": vt}
    b = {"op": "just_done"} if self.rng.random() < 0.5 else {"op": "just_error", "eid": self.val_id()}
    return {"op": "variant_sender", "alts": [a, b], "active": 0 if self.rng.random() < 0.7 else 1}


Gen.when_all_range = _gen_when_all_range
Gen.variant_sender = _gen_variant_sender


def may_have_empty_errors(s):
    """conservative: False only when the sender certainly declares exception_ptr errors"""
    op = s["op"]
    if op in ("leaf", "then", "upon_error", "upon_done", "let_value", "let_error", "let_done",
              "finally", "via", "when_all", "when_any", "when_all_range", "just_from", "defer", "retry_when", "just_error", "any_sender"):
        return False
    if op in ("unstoppable", "with_query", "allocate", "lvw_stop_source", "lvw_stop_token",
              "let_value_with", "stop_when"):
        return may_have_empty_errors(s.get("kid") or s.get("body"))
    return True


# ---------------------------------------------------------------------------
# C++ emission
# ---------------------------------------------------------------------------
def cpp(s):
    op = s["op"]
    U = "unifex::"
    if op == "leaf":
        vt = ("vf::mval" if s.get("mv") else "vf::val") if s["vt"] == "val" else "void"
        b = "always_inline" if s.get("blocking") == "inline" else "maybe"
        extra = ""
        if s.get("inop"):
            extra = ", false, true"
        elif s.get("lvv"):
            extra = ", true"
        return "vf::leaf<%s, unifex::_block::_enum::%s, %s, %s, false%s>{%d}" % (
            vt, b, "true" if s.get("sd", 1) else "false", "true" if s.get("aff") else "false", extra, s["id"])
    if op == "just":
        return U + "just(%s)" % ", ".join("vf::val{%d}" % i for i in s["vals"])
    if op == "just_error":
        return U + "just_error(std::make_exception_ptr(vf::err_exc{%d}))" % s["eid"]
    if op == "just_done":
        return U + "just_done()"
    if op == "just_void_or_done":
        return U + "just_void_or_done(%s)" % ("true" if s["b"] else "false")
    if op == "stop_if_requested":
        return U + "stop_if_requested()"
    if op == "just_from":
        return U + "just_from(vf::fn(%d, vf::ret_%s{}))" % (s["fn"], s["ret"])
    if op in ("then", "upon_error", "upon_done"):
        return U + "%s(%s, vf::fn(%d, vf::ret_%s{}))" % (op, cpp(s["kid"]), s["fn"], s["ret"])
    if op in ("let_value", "let_error", "let_done"):
        return U + "%s(%s, vf::fn(%d, [](auto&&...) { return %s; }))" % (
            op, cpp(s["kid"]), s["fn"], cpp(s["body"]))
    if op == "defer":
        return U + "defer(vf::fn(%d, []() { return %s; }))" % (s["fn"], cpp(s["body"]))
    if op == "sequence":
        return U + "sequence(%s)" % ", ".join(cpp(k) for k in s["kids"])
    if op == "finally":
        return U + "finally(%s, %s)" % (cpp(s["kid"]), cpp(s["completion"]))
    if op == "via":
        return U + "via(%s, vf::msched{%d})" % (cpp(s["kid"]), s["sched"])
    if op == "on":
        return U + "on(vf::msched{%d}, %s)" % (s["sched"], cpp(s["kid"]))
    if op == "with_query":
        if s["q"] == "cookie":
            return U + "with_query_value(%s, vf::get_cookie, %d)" % (cpp(s["kid"]), s["value"])
        if s["q"] == "sched":
            return U + "with_query_value(%s, unifex::get_scheduler, vf::msched{%d})" % (cpp(s["kid"]), s["value"])
    if op in ("unstoppable", "materialize", "dematerialize", "done_as_optional", "into_variant", "allocate"):
        return U + "%s(%s)" % (op, cpp(s["kid"]))
    if op == "any_sender":
        return U + "any_sender_of<%s>{%s}" % ("vf::val" if s["vt"] == "val" else "", cpp(s["kid"]))
    if op == "lvw_stop_source":
        return U + "let_value_with_stop_source(vf::fn(%d, [](auto&) { return %s; }))" % (s["fn"], cpp(s["body"]))
    if op == "lvw_stop_token":
        return U + "let_value_with_stop_token(vf::fn(%d, [](unifex::inplace_stop_token) { return %s; }))" % (
            s["fn"], cpp(s["body"]))
    if op == "let_value_with":
        return U + "let_value_with(vf::fn(%d, vf::ret_val{}), vf::fn(%d, [](auto&) { return %s; }))" % (
            s["gfn"], s["fn"], cpp(s["body"]))
    if op == "when_all":
        return U + "when_all(%s)" % ", ".join(cpp(k) for k in s["kids"])
    if op == "when_any":
        return U + "when_any(%s)" % ", ".join(cpp(k) for k in s["kids"])
    if op == "when_all_range":
        lt = cpp(s["proto"]).rsplit("{", 1)[0]
        return "[] { using L_ = %s; std::vector<L_> v_; v_.reserve(%d); %s return unifex::when_all_range(std::move(v_)); }()" % (
            lt, max(1, len(s["kids"])), " ".join("v_.emplace_back(%d);" % k["id"] for k in s["kids"]))
    if op == "variant_sender":
        a, b = s["alts"]
        return ("[] { auto a_ = [] { return %s; }; auto b_ = [] { return %s; }; "
                "using V_ = unifex::variant_sender<decltype(a_()), decltype(b_())>; return V_{%s_()}; }()" % (
                    cpp(a), cpp(b), "ab"[s["active"]]))
    if op == "stop_when":
        return U + "stop_when(%s, %s)" % (cpp(s["kid"]), cpp(s["trigger"]))
    if op == "retry_when":
        return U + "retry_when(%s, vf::fn(%d, [](auto&&...) { return %s; }))" % (
            cpp(s["kid"]), s["fn"], cpp(s["body"]))
    if op == "repeat_effect_until":
        return U + "repeat_effect_until(%s, vf::pred(%d, %d))" % (cpp(s["kid"]), s["fn"], s["until"])
    if op == "reduce_stream":
        return U + "reduce_stream(%s, vf::val{%d}, vf::fn(%d, vf::ret_val{}))" % (cpp_stream(s["stream"]), s["init"], s["fn"])
    if op == "for_each":
        return U + "for_each(%s, vf::fn(%d, vf::ret_void{}))" % (cpp_stream(s["stream"]), s["fn"])
    raise AssertionError(op)


def cpp_stream(s):
    k = s["s"]
    U = "unifex::"
    if k == "probe":
        return "vf::probe_stream{%d}" % s["sid"]
    if k == "transform":
        return U + "transform_stream(%s, vf::fn(%d, vf::ret_val{}))" % (cpp_stream(s["src"]), s["fn"])
    if k == "filter":
        return U + "filter_stream(%s, vf::fpred%s(%d, %du))" % (cpp_stream(s["src"]), "_bv" if s.get("bv") else "", s["fn"], s["mask"])
    if k == "via_stream":
        return U + "via_stream(vf::msched{%d}, %s)" % (s["sched"], cpp_stream(s["src"]))
    if k == "type_erase":
        return U + "type_erase<vf::val>(%s)" % cpp_stream(s["src"])
    if k == "stop_immediately":
        return U + "stop_immediately<vf::val>(%s)" % cpp_stream(s["src"])
    if k == "take_until":
        return U + "take_until(%s, %s)" % (cpp_stream(s["src"]), cpp_stream(s["trig"]))
    raise AssertionError(k)


def walk(s):
    yield s
    for k in ("kid", "body", "completion", "trigger", "stream", "src", "trig"):
        if k in s:
            yield from walk(s[k])
    for k in s.get("kids", []):
        yield from walk(k)
    if "alts" in s:
        # only the active alternative of a variant_sender is ever connected
        yield from walk(s["alts"][s["active"]])


def leaves(s):
    """leaf descriptors incl. scheduler leaves: list of dict(id, sd, vt, inline, is_sched)"""
    out = []
    for n in walk(s):
        if n.get("op") == "leaf":
            out.append({"id": n["id"], "sd": n.get("sd", 1), "inline": n.get("blocking") == "inline",
                        "is_sched": 0})
        elif n.get("op") in ("via", "on") or n.get("s") == "via_stream":
            out.append({"id": n["sched"], "sd": 1, "inline": False, "is_sched": 1})
        elif n.get("s") == "probe":
            out.append({"id": n["sid"] * 10 + 1, "sd": 1, "inline": False, "is_sched": 0, "stream_next": n["sid"]})
            out.append({"id": n["sid"] * 10 + 2, "sd": 1, "inline": False, "is_sched": 0, "stream_cleanup": n["sid"]})
    return out


def fns(s):
    out = []
    for n in walk(s):
        if "fn" in n:
            out.append(n["fn"])
        if "gfn" in n:
            out.append(n["gfn"])
    return out


def has_op(s, ops):
    return any(n.get("op") in ops for n in walk(s))


def program_cpp(pid, spec, tokkind, lv_ok=False):
    return ("static void prog_%d() {\n  vf::run_program<%d, %s>([] {\n    return %s;\n  });\n}\n"
            "static vf::registrar reg_%d(%d, prog_%d);\n" %
            (pid, tokkind, "true" if lv_ok else "false", cpp(spec), pid, pid, pid))


def tu_text(progs):
    """progs: list of (pid, spec, tokkind, lv_ok)"""
    return HEADERS + "\n" + "\n".join(program_cpp(*p) for p in progs)


MAIN_TU = "#include <vf/det_main.hpp>\nint main(int c, char** v) { return vf::det_main(c, v); }\n"


def generate(seed, n, max_depth=3, max_leaves=5, ops=None):
    rng = random.Random(seed)
    g = Gen(rng, max_depth, max_leaves, ops)
    out = []
    for i in range(n):
        spec = g.program()
        r = rng.random()
        tok = 0 if r < 0.5 else (1 if r < 0.85 else 2)
        out.append((i + 1, spec, tok, False))
    if ops is None:
        out.extend(corner_programs(seed))
        out.extend(extension_programs(seed, max(6, n // 5), max_depth, max_leaves))
    return out


def extension_programs(seed, n, max_depth=3, max_leaves=5):
    """programs over the grammar extended by when_all_range and variant_sender, drawn from their own random stream (the
    programs 1..n of a seed stay what they were before these operators were added); every program contains at least one
    of the two"""
    rng = random.Random(seed * 7717 + 5)
    g = Gen(rng, max_depth, max_leaves, None, ext=True)
    out = []
    tries = 0
    while len(out) < n and tries < 400:
        tries += 1
        spec = g.program()
        if not has_op(spec, ("when_all_range", "variant_sender")):
            continue
        r = rng.random()
        tok = 0 if r < 0.5 else (1 if r < 0.85 else 2)
        out.append((951 + len(out), spec, tok, False))
    return out


def corner_programs(seed):
    """a few fixed small programs that every run contains: value-storing adaptors fed by a leaf whose value type has a
    throwing move constructor (vf::mval), so that the single-fault enumeration reaches the 'storing the value threw' paths
    of finally / via / when_all / let_value / stop_when whatever the random programs of this seed look like"""
    def L(i, vt="val", mv=1):
        d = {"op": "leaf", "id": i, "vt": vt, "blocking": "maybe", "sd": 1, "aff": 0}
        if mv and vt == "val":
            d["mv"] = 1
        return d
    progs = [
        {"op": "via", "kid": L(1), "sched": 100},
        {"op": "finally", "kid": L(1), "completion": L(2, "void")},
        {"op": "then", "kid": {"op": "when_all", "kids": [L(1), L(2)]}, "fn": 10, "ret": "val"},
        {"op": "let_value", "kid": L(1), "fn": 10, "body": L(2, "val", 0)},
        {"op": "stop_when", "kid": L(1), "trigger": L(2, "void")},
        {"op": "via", "kid": {"op": "then", "kid": L(1), "fn": 10, "ret": "val"}, "sched": 100},
    ]
    tok = seed % 2   # counting / inplace token alternate with the seed
    return [(901 + i, sp, tok, False) for i, sp in enumerate(progs)]


if __name__ == "__main__":
    import sys
    for p in generate(int(sys.argv[1]), int(sys.argv[2])):
        print(p[0], p[2], cpp(p[1]))
        print(json.dumps(p[1]))
