"""Regenerates /verif/MANIFEST.json from the table below (python3 -m vfpy.manifest)."""
import json
import os
import subprocess

HERE = os.path.dirname(os.path.dirname(os.path.abspath(__file__)))

EXPR_NOTE = ("Trusted base: the harness toolkit (harness/include/vf/det.hpp), the generator and the executable "
             "reference semantics (vfpy/expr_model.py, written from doc/api_reference.md), g++ 12 ASan/UBSan. "
             "Assumes leaf-level serialisation of events (det mode); grammar and depth as stated in the evidence.")

CHECKS = {
    "C01": dict(
        level="exploration", design="5 C01",
        technique="runtime monitoring: counting probe receiver (exactly-once / not-before-start) + lost-completion "
                  "rule at quiescence over generated sender expressions (incl. when_all_range, variant_sender) x enumerated leaf "
                  "orders and stop points, ASan+UBSan; plus exactly-once/lost-item counters of the scheduler stress harness "
                  "(thread pool, event loop, timed context, new-thread context stopped right after the last accepted item)",
        text="Every execution of every generated expression/scenario is watched by a completion-protocol monitor "
             "(second signal, signal before start, signal on a never-started operation) and compared with a reference "
             "model that says when the outer receiver must have been completed (lost completion). Holds on the "
             "executions explored, not for all programs/schedules. schedule() operations of the real execution contexts are "
             "counted too: each started operation must complete exactly once even when its context is stopped or destroyed "
             "right after accepting it.",
        note=EXPR_NOTE),
    "C02": dict(
        level="fault_enumeration", design="5 C02",
        technique="runtime monitoring: object-lifetime ledger + allocation ledger + poisoned operation-state arenas "
                  "under ASan/UBSan, with single-fault enumeration (k-th callable/copy/connect/allocation throws)",
        text="Tracked values, callables, receivers, leaf senders and leaf operation states register construction and "
             "destruction; leaks, double destruction, destruction of a running child, allocator imbalance and any "
             "ASan/UBSan report are violations. The operation state lives in a poisoned heap arena that the receiver "
             "frees inside its completion in half of the scenarios. For representative scenarios every single "
             "throwable point (callable, value copy, move of the throwing-move value flavour, leaf connect, allocation) is made "
             "to throw in turn (complete single-fault enumeration for those scenarios). The detach_on_cancel race harness "
             "(LeakSanitizer) and the task<> plan interpreter (frame/local ledger) run with this verdict too.",
        note=EXPR_NOTE + " Double faults are not enumerated."),
    "C04": dict(
        level="exploration", design="5 C04",
        technique="runtime monitoring: counting stop-token (registrations at completion must be 0; source freed at "
                  "completion under ASan) + model-predicted stop visibility at every running leaf, stop injected at every position",
        text="The outer receiver exposes a counting stop token; at the instant of completion the number of live "
             "registrations must be zero and the source is freed (ASan catches later use). After each stop request "
             "every running leaf logs what its own token says, and leaves started later log their token state; both "
             "are compared with the reference model (shielded under unstoppable only). The same rules are applied to the "
             "generated stream pipelines of C13 (take_until, stop_immediately, type_erase) and to the task<> plan "
             "interpreter of C10 (stop-request thunk and token adapter registrations).",
        note=EXPR_NOTE),
    "C05": dict(
        level="exploration", design="5 C05",
        technique="runtime monitoring + reference-model differential: observed completion channel/payload ids, callable "
                  "invocations and leaf starts vs an executable semantics of the documented algorithms",
        text="For every scenario the observed event log (callable invocations with argument identities, leaf starts, "
             "outer outcome with payload identities) is compared, reaction by reaction, with the log predicted by the "
             "reference semantics written from doc/api_reference.md.",
        note=EXPR_NOTE),
    "C11": dict(
        level="exploration", design="5 C11",
        technique="runtime monitoring: context tags on every leaf completion/outer completion + statically declared "
                  "sender traits logged by the program and checked against the observed execution",
        text="Each generated program logs the traits its sender type declares (blocking, sends_done, "
             "is_always_scheduler_affine); leaves have truthful flavours, so an observed completion after start() "
             "returned / off the receiver's context / with done that contradicts a declared trait is the adaptor's "
             "unsoundness. via/on hops are checked through the model (completion delivered in the scheduler leaf's reaction) and, "
             "for programs rooted in via(), by a direct rule that also holds under injected faults (completion on the scheduler's "
             "context whenever its hop ran; hop never skipped). task<>: root completion context of generated plans, and the "
             "thread of every resumption in the multi-threaded task harness (stop arriving from another thread).",
        note=EXPR_NOTE + " blocking_kind::never is not judged."),
    "C12": dict(
        level="exploration", design="5 C12",
        technique="runtime monitoring: every leaf logs the scheduler, allocator, custom-query cookie and stop-token state "
                  "visible through the receiver it was connected with; compared with the model's environment for that position",
        text="Leaves record get_scheduler / get_allocator / a user-defined query CPO / stop state as seen from their "
             "receiver at start; the model computes the expected tuple from the adaptor stack (replaced only by "
             "on / with_query_value / unstoppable / interposed stop sources). allocate() must allocate from and return "
             "to exactly the visible allocator (allocation ledger with allocator ids).",
        note=EXPR_NOTE),
}

CHECKS["C03"] = dict(
    level="exploration", design="5 C03",
    technique="runtime monitoring: many short concurrent histories on the real stop sources checked against the "
              "sequential stop-source rules (exactly-once, never after deregistration returned, inline when already "
              "stopped, one first requester) with delay injection at hook sites, under ASan (freed callback storage) and clang TSan",
    text="Registering, deregistering and requesting threads race on inplace_stop_source, fused_stop_source and "
         "inplace_stop_token_adapter; every callback logs enter/exit, every API call logs call/return sequence "
         "numbers; the oracle uses real-time precedence only in the sound direction. Callback storage is freed the "
         "moment deregistration returns, so a late execution is also a heap-use-after-free. Evidence reports how "
         "often each racy outcome class was observed.",
    note="Trusted base: harness/src/stoptok.cpp, harness/include/vf/mt.hpp, g++ ASan, clang TSan. Schedules are "
         "those produced by the OS under seeded perturbation; not exhaustive.")

MT_NOTE = ("Trusted base: the harness program, harness/include/vf/mt.hpp (hook runtime, relaxed-atomic monitors), g++ ASan/UBSan, "
           "clang TSan (fence-based synchronisation annotated in one place, see DESIGN.md section 6). Schedules are those the OS "
           "produced under seeded delay injection at the hook sites; not exhaustive; x86-64 only.")

CHECKS["C15"] = dict(
    level="exploration", design="5 C15",
    technique="runtime monitoring under stress: owner-word mutual-exclusion monitor + plain counter inside the critical "
              "section (TSan), grant/unlock conservation, try_lock probe at quiescence (leaked lock), bounded lost-wake-up "
              "watchdog, FIFO rule over recorded start/grant sequence numbers; delay injection at the Dekker/queue hook sites; ASan and TSan builds",
    text="2-8 threads hammer one v1 or v2 async_mutex with async_lock/try_lock/unlock; v2 waiters are cancelled before "
         "start, while queued and racing the hand-off, with inline and real-context receiver schedulers. Violations: two "
         "holders at once, lock not acquirable at quiescence, grants != unlocks, a started uncancelled lock pending for "
         "30 s with nothing left to wake it, done without stop, FIFO inversion between real-time ordered queued waiters.",
    note=MT_NOTE)
CHECKS["C16"] = dict(
    level="exploration", design="5 C16",
    technique="runtime monitoring under stress: short concurrent histories on manual-reset events v1/v2 and the auto-reset "
              "event checked at quiescent points (every waiter completes once after a set, none without one, reset only "
              "affects later waits, values <= set() calls, permanently done), completion-thread check; tight cancel-vs-set "
              "races on pre-queued v2 waiters (sub-microsecond jitter); ASan and TSan builds",
    text="Waiters, setters, resetters and (v2) stop requests race on a fresh event per history; the oracle checks "
         "exactly-once completion, no stranded waiter after set(), no completion without set(), behaviour after reset, "
         "value completions on the receiver's scheduler thread; auto-reset event: values never exceed set() calls, done is "
         "permanent. async_pass (harness pass.cpp): async_call/async_accept from two threads with a stop request on one side, "
         "survivor served by try_call/try_accept; value iff delivered, exact payload, cancelled side leaves the other waiting "
         "and the argument untouched, try_* fail on an idle pass, completion on the waiter's scheduler thread.",
    note=MT_NOTE)

CHECKS["C08"] = dict(
    level="exploration", design="5 C08",
    technique="runtime monitoring under stress: per-leaf admission/start/completion sequence numbers vs join start/completion "
              "(join never before nested work, nothing started after close, every join completes once, stop reaches running "
              "work), heap-allocated scope destroyed by the last joiner under ASan, TSan on the same workload, delay injection at the opState_ sites",
    text="Workers spawn/nest/attach/discard manual leaves into a v0, v1 or v2 scope while completer threads finish them, a "
         "stopper calls request_stop and 1-2 joiners start join/complete/cleanup at random times. Offline rules over the "
         "recorded sequence numbers decide the property; the scope is freed as soon as its joins completed so that a "
         "completion path that still touches it is a heap-use-after-free.",
    note=MT_NOTE)
CHECKS["C09"] = dict(
    level="exploration", design="5 C09",
    technique="runtime monitoring under stress: futures awaited / cancelled / dropped while the spawned leaf completes on "
              "another thread; payload identity, legitimacy of done, dropped-future-requests-stop rule, tracked-result "
              "construction/destruction balance, ASan (shared heap state) and TSan, delay injection at the five CAS sites",
    text="A third of the admissions in the scope stress are spawn_future/scope.spawn; each future is awaited (with a stop "
         "request before or shortly after start in a quarter of the cases) or dropped, racing with the completer threads "
         "and with scope-wide stop/close. Value/error ids must match the leaf's; done is accepted only for the listed "
         "reasons; a result available before the future was started must survive a stop request; results are tracked.",
    note=MT_NOTE + " spawn_detached's terminate-on-error is not driven.")

CHECKS["C06"] = dict(
    level="exploration", design="5 C06",
    technique="runtime monitoring under stress: per-item exactly-once counters, completion-thread identity, stop-before-start "
              "-> done rule, conservation at context stop/destruction (lost item watchdog), FIFO rule over start/completion "
              "sequence numbers, trampoline nesting-depth monitor, /proc thread count; ASan and TSan builds, delay injection at enqueue sites",
    text="1-8 producers start schedule() operations in bursts with idle gaps on every context type while the context is "
         "stopped/destroyed right after the last accepted item; each item must complete exactly once, on a context thread "
         "(or inline for inline/trampoline), with done iff stop was requested before start, in FIFO order on single-threaded "
         "loops; trampoline nesting never exceeds max(1, depth) and no deferred item is left when the outermost start returns.",
    note=MT_NOTE)

CHECKS["C07"] = dict(
    level="exploration", design="5 C07",
    technique="runtime monitoring: scheduler-clock reading inside each completion (never early), gate-batched co-queued timers "
              "checked for (due, submission) order, cross-thread cancel storms with exactly-once counters, far-future cancel "
              "with a logical marker, heap operation states freed at completion under ASan, TSan; generated time_point "
              "arithmetic vs an __int128 model",
    text="On timed_single_thread_context, io_epoll_context, io_uring_context and thread_unsafe_event_loop: batches of "
         "schedule_at operations queued behind a gate item, schedule_after operations racing stop requests issued from "
         "another thread around their due time (or before start), and +1h timers that are cancelled. Each operation must "
         "complete exactly once, never before its due time on the scheduler's clock, in due-time order with ties in "
         "submission order, with done when cancelled; freed operation states catch a context that keeps a reference.",
    note=MT_NOTE)

CHECKS["C17"] = dict(
    level="exploration", design="5 C17",
    technique="runtime monitoring over enumerated inputs: per-index visit counters, terminal/overlap monitors on a custom "
              "bulk receiver, stop injected at every cancellation-chunk boundary; find_if over exactly-sized heap ranges for "
              "every enumerated length/policy/match position with a predicate address monitor, compared with std::find_if; "
              "execution-policy composition of stacked bulk_transforms over a source that honours the advertised policy "
              "(overlap monitors on every function and on the receiver); ASan/UBSan",
    text="bulk_schedule(n) must call set_next for each index exactly once before set_value, never after or overlapping the "
         "terminal signal, never overlapping under sequenced policies; after a stop request the visited set must be a prefix "
         "of whole chunks followed by done. find_if must equal std::find_if and call the predicate only on elements of the "
         "range, for every enumerated length (thorough: all of 0..1100). For all 64 (function, function, receiver) policy "
         "triples the policy advertised upstream must be the intersection, and no function or receiver that did not permit "
         "parallel execution may be called concurrently by a source that honours the advertised policy.",
    note="Trusted base: harness/src/bulk.cpp, g++ ASan/UBSan. Exhaustive only over the enumerated lengths, policies and match positions.")

CHECKS["C19"] = dict(
    level="exploration", design="5 C19",
    technique="runtime monitoring under stress: exactly-once completion counters, stop()-hook call counters and "
              "start/stop ordering flags on a raw operation wrapped in cancellable<>, operation states malloc'd and freed "
              "at completion (ASan), detach_on_cancel child-state ledger, stop_on_request fired from two threads, canary "
              "destructor/guard/watcher triads; create_basic_sender operations with safe/unsafe callbacks fired from a helper "
              "thread, stop from another and stop requested from inside the operation's own handlers (completion counter, "
              "stop-handler counter, handler-frame monitor, late-callback no-op rule); persistent racing threads with delay injection at the fetch_or/CAS sites; ASan and TSan",
    text="Natural completion (inline, or from a completer thread after 0-8 us, or never), a stop request (before start, "
         "concurrently with start, later) and the return of start() race on cancellable<raw,false/true>; exactly one of "
         "them may complete the receiver, stop() runs at most once and never before start() unless in skip-start mode, and "
         "freed operation states expose any later touch. The same discipline for detach_on_cancel (done delivered with the "
         "stop request; abandoned child freed exactly once), stop_on_request and canary. create_basic_sender: the receiver is "
         "completed exactly once and never from a frame nested in the operation's own handler, the stop handler runs at "
         "most once and never after completion, a late safe callback is a no-op.",
    note=MT_NOTE + " create_raw_sender (a plain factory without arbitration of its own) is not driven.")

CHECKS["C13"] = dict(
    level="exploration", design="5 C13",
    technique="runtime monitoring + reference-model differential on generated stream pipelines: probe streams whose "
              "next/cleanup senders are manual leaves, list-semantics model per adaptor, direct log rules for cleanup "
              "exactly-once / after the last next / before the consumer's result; lifetime ledger and ASan/UBSan",
    text="For every generated pipeline and scenario the consumer-observed callable invocations (with element identities), "
         "fold result, leaf starts and terminal signal are compared with the stream model; cleanup of every started source "
         "must start exactly once, never while a next is outstanding, and finish before the consumer's result; stop "
         "requests at every position must not duplicate or invent elements.",
    note=EXPR_NOTE + " Adaptors not generated yet are listed in the evidence assumptions.")

CHECKS["C18"] = dict(
    level="exploration", design="5 C18",
    technique="runtime monitoring, model-based: random operation sequences on any_object / any_unique / any_ref against a slot "
              "model with tracked wrapped objects (lineage ids, ledger, counting allocator); any_sender_of / type_erase "
              "inserted into generated programs and compared with the reference model (wrapper = identity, declared queries "
              "only); any_scheduler over a real context; ASan/UBSan",
    text="Wrapped objects carry a lineage id and register every construction/move/copy/destruction; after each operation "
         "every live wrapper must report, through its erased CPOs, the object the model says it holds; heap-stored objects "
         "must be handed over (not moved) and inline ones moved exactly once, never copied; everything is destroyed exactly "
         "once and the allocator balance returns to zero; exceptions thrown by the wrapped object's CPO propagate unchanged. "
         "Generated sender/stream programs with any_sender_of / type_erase inserted must behave as the model of the same "
         "program without the wrapper (completions, payload ids, stop reaching the wrapped leaf, declared queries).",
    note=EXPR_NOTE)

CHECKS["C14"] = dict(
    level="exploration", design="5 C14",
    technique="runtime monitoring under stress: run()-thread identity of remotely scheduled items with idle/wake bursts, "
              "byte-stream integrity of unique 8-byte counters through pipes/files, sentinel-filled exactly-sized heap buffers "
              "freed after each operation (stale completions = ASan reports), cancellation before start / parked / racing "
              "readiness, EPIPE error code, run(stop_token) return, /proc descriptor count, io_uring ring saturation (more "
              "reads in flight than completion-ring slots while the loop goes idle); ASan and TSan, delay injection at the remote-queue sites",
    text="On io_epoll_context (pipes) and io_uring_context (files): items scheduled from other threads must run on the "
         "thread inside run() and none may be lost across idle gaps; each read/write completes exactly once with the number "
         "of bytes actually transferred and the bytes received equal the bytes sent; a cancelled read completes with done, "
         "does not touch its buffer and leaves no registration behind (later data goes to later reads); a failing write "
         "reports the OS error; run() returns after stop and the process's descriptor count returns to its initial value.",
    note=MT_NOTE + " Kernel behaviour is trusted; sockets are not exercised.")

CHECKS["C20"] = dict(
    level="exploration", design="5 C20",
    technique="runtime monitoring, cross-configuration differential: the same generated sender/stream programs and scenario "
              "lists compiled under {C++17,20} x {NDEBUG, debug+async stacks} x {continuation visitation 0,1}; canonical "
              "event logs and declared traits compared with the baseline configuration; async-stack root probe at quiescence",
    text="Every program/scenario is executed under each configuration (quick: C++17/release/no-visitation vs "
         "C++20/debug/visitation; thorough: all eight) and its canonical event log - callable invocations with payload "
         "ids, leaf start/stop/completion order, outcome channel and payload, context tags - must be identical; in debug "
         "configurations no AsyncStackRoot may remain current on the driver thread once a scenario is quiescent.",
    note=EXPR_NOTE + " g++/libstdc++ only; coroutine plans are compared only between the C++20 configurations (see C10).")

CHECKS["C10"] = dict(
    level="exploration", design="5 C10",
    technique="runtime monitoring of generated coroutine programs: a task<> plan interpreter (one binary, plans are data) "
              "run under ASan+UBSan with object/frame ledger, counting stop token and poisoned operation arena; offline "
              "comparison of every event log with an executable reference model of task<>; direct log rules for cleanup "
              "exactly-once / frame exactly-once / nothing-after-completion; handle-ownership probe (overwritten / moved / "
              "dropped never-started tasks) witnessed by a by-value frame parameter and LeakSanitizer",
    text="Every generated nesting of task<> bodies (await value/error/done leaves, nested tasks, at_coroutine_exit actions, "
         "locals, throw, plain awaitables, stop_if_requested) is executed under every scenario of the stated families with "
         "three receiver token flavours; the observed log - resumption values and contexts, exceptions, done unwinding, "
         "cleanup order relative to local destruction and to the parent's resumption, frame destruction, stop delivery to "
         "the awaited leaf, root completion - must equal the model's.",
    note="g++/clang++ -std=c++20 only. Deterministic part: single driver thread, stop injected at every driver position. "
         "Multi-threaded part (coromt): a real stop request from another context's thread races the task tree, hook sites "
         "451-455 in the stop-request thunk are perturbed and both join orders must be observed; ASan+UBSan and TSan.")

NOT_YET = "check not built yet (construction in progress, see DESIGN.md section 10)"


def main():
    props = [json.loads(l)["id"] for l in open(os.path.join(HERE, "properties.jsonl"))]
    try:
        commits = subprocess.run(["git", "-C", "/repo", "log", "--format=%h %s", "--grep=^verif-hooks:"],
                                 capture_output=True, text=True).stdout.strip().split("\n")
        commits = [c.split(" ")[0] for c in commits if c]
    except Exception:
        commits = []
    checks = []
    for p in props:
        if p not in CHECKS:
            continue
        c = CHECKS[p]
        checks.append({
            "property_id": p,
            "quick_cmd": "./vf check %s --tier quick" % p,
            "thorough_cmd": "./vf check %s --tier thorough" % p,
            "evidence_file": "/verif/evidence/%s.json" % p,
            "replay_cmd_template": "./vf replay {path}",
            "engine": "vf",
            "level_claimed": {"category": c["level"], "text": c["text"], "design_ref": "DESIGN.md section " + c["design"]},
            "level_note": c["note"],
            "technique": c["technique"],
        })
    m = {
        "version": 1,
        "setup_cmd": "./vf setup",
        "hooks": {
            "guard": "UNIFEX_VERIF_HOOKS",
            "enable": "checks compile /repo/source/*.cpp and the harnesses directly (no cmake) with -DUNIFEX_VERIF_HOOKS",
            "baseline_off_cmd": "./vf baseline-off",
            "source_commits": commits,
            "add_only": True,
        },
        "engines": [{
            "name": "vf", "path": "/verif/vf", "serves_properties": [c["property_id"] for c in checks],
            "kind_free_text": "runtime monitoring: sanitizer builds of the real library + harness monitors + offline checkers",
        }],
        "checks": checks,
        "notes": "All verdicts come from executions of /repo's working tree rebuilt from source (content-hashed cache "
                 "under /verif/build). known_findings.json lists genuine defects that are recorded rather than repaired.",
        "not_applicable": [{"property_id": p, "reason": NOT_YET} for p in props if p not in CHECKS],
    }
    with open(os.path.join(HERE, "MANIFEST.json"), "w") as f:
        json.dump(m, f, indent=1)
    print("MANIFEST.json: %d checks, %d not_applicable" % (len(checks), len(m["not_applicable"])))


if __name__ == "__main__":
    main()
