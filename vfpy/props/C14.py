"""C14: I/O contexts (epoll pipes, io_uring files): once, true result, no stale state, descriptors released."""
from .. import core, mt_check


def run(tier, seed, verdict):
    quick = tier == "quick"
    ctxs = 4 if quick else 40
    res = mt_check.MtResult()
    for variant in ("asan20d", "tsan20d"):
        n = ctxs if variant.startswith("asan") else max(2, ctxs // 3)
        a = []
        for i, v in enumerate((0, 431, 432, 433, 434, 437, 438)[: (3 if quick else 7)]):
            a.append(["seed=%d" % (seed * 100 + i), "victim=%d" % v, "mode=epoll", "iters=%d" % n, "threads=4"])
        for i, v in enumerate((0, 441, 442, 443, 444)[: (2 if quick else 5)]):
            a.append(["seed=%d" % (seed * 100 + 20 + i), "victim=%d" % v, "mode=uring", "iters=%d" % n, "threads=4"])
        mt_check.run_mt("C14", "io", variant, a, verdict, res, timeout=1800)
    st = res.stats
    need = ["scheduled_items", "bytes_transferred", "reads", "writes", "reads_cancelled_done", "os_errors_checked", "contexts"]
    missing = [k for k in need if not st.get(k)]
    core.require_observed(verdict, missing, "io harness")
    cov = {
        "evaluations": st.get("scheduled_items", 0) + st.get("reads", 0) + st.get("writes", 0),
        "distinct_nontrivial": sum(1 for v in st.values() if v) + sum(1 for v in res.hooks.values() if v),
        "rule": "evaluations = remotely scheduled items + read and write operations. Per context lifetime (io_epoll_context / "
                "io_uring_context, run(stop_token) on its own thread): 1-4 producer threads schedule items in bursts with idle "
                "gaps (the loop blocks and must be woken), checked to run on the run() thread; epoll: pipes carrying a stream "
                "of unique 8-byte counters written and read in chunks of {1, 7, 64, 4096, 65536} bytes into exactly-sized, "
                "sentinel-filled heap buffers that are freed after each operation, reads cancelled before start / while parked "
                "on an empty pipe / racing readiness, data written after a cancelled read must reach the next read intact, a "
                "write to a pipe without reader must fail with EPIPE; io_uring: temp-file write/read round trips at offsets "
                "with random chunk sizes; finally run() must return after stop and the descriptor count of the process must be "
                "back to its value before the context existed. distinct_nontrivial counts conservatively the non-zero outcome "
                "counters plus hook sites hit",
        "samples": ["%d items scheduled remotely, %d bytes through pipes/files in %d reads / %d writes, %d reads cancelled "
                    "with done, %d stop-lost-race, %d OS errors checked" % (
                        st.get("scheduled_items", 0), st.get("bytes_transferred", 0), st.get("reads", 0), st.get("writes", 0),
                        st.get("reads_cancelled_done", 0), st.get("reads_stop_lost_race_value", 0),
                        st.get("os_errors_checked", 0))],
        "race_outcomes": dict(st),
        "hook_hits": res.hooks,
        "sanitizer": {"asan_runs": res.san_runs["asan"], "tsan_runs": res.san_runs["tsan"],
                      "tsan_reports": res.tsan_reports},
        "processes": res.runs, "inconclusive": res.inconclusive, "exhaustive": False,
    }
    assume = [
        "kernel behaviour is trusted; sockets/accept are not exercised; only EPIPE is provoked as an OS error",
        "bytes consumed by a read that lost the race to cancellation count as delivered only if the read completed with value",
        "descriptor release is judged by the process's open-descriptor count before/after the context (double close is not observable this way)",
        "no valgrind: it hangs on io_uring in this sandbox",
    ]
    return cov, assume, "exploration"
