"""shared driver for the properties decided on generated sender expressions"""
from .. import core, expr_check

TIERS = {
    # tier: (n_programs, per_tu, depth, leaves, budget)
    "quick": (36, 3, 3, 5, 120),
    "thorough": (80, 4, 4, 6, 300),
}

ASSUME = [
    "only expressions of the generator's grammar (DESIGN.md 4.1) up to the stated depth are explored",
    "leaf completions, stop requests and scheduler pumps are serialised by the harness driver (det mode): "
    "interleavings finer than one leaf-level event are not produced here",
    "the reference model (vfpy/expr_model.py) encodes doc/api_reference.md; where the doc is silent the "
    "unchanged implementation's order of independent events is not required (multiset comparison per reaction)",
    "the receiver is allowed to destroy the operation state and free its stop source inside its completion",
]


def run_expr_prop(prop, tier, seed, verdict, variants=("asan20d",), faults=False, extra_rule="", fault_ops=None, fault_scenarios=12):
    n, per, depth, leaves, budget = TIERS[tier]
    cov_total = None
    for vi, variant in enumerate(variants):
        run = expr_check.ExprRun(seed, n, per, depth, leaves, variant, budget, name="expr")
        run.build()
        fp = None
        if fault_ops:
            from .. import gen_expr
            fp = set(p[0] for p in run.progs if gen_expr.has_op(p[1], fault_ops))
        run.execute({prop: verdict}, None, faults=faults, fault_programs=fp, fault_scenarios=fault_scenarios)
        cov = run.coverage()
        cov["build_variants"] = list(variants)
        if cov_total is None:
            cov_total = cov
        else:
            for k in ("evaluations", "fault_injected_runs", "model_compared", "weak_oracle_only",
                      "crashed_processes", "inconclusive", "reordered_but_equal"):
                cov_total[k] += cov[k]
            # distinct cases are (program, scenario, observed order): the same under another build
            # variant is not a new case, so keep the maximum rather than the sum
            cov_total["distinct_nontrivial"] = max(cov_total["distinct_nontrivial"], cov["distinct_nontrivial"])
    cov_total["exhaustive"] = False
    cov_total["rule"] = (
        "programs: seeded random sender expressions (depth<=%d, <=%d leaves) over the adaptor grammar; "
        "scenarios per program: all-inline, all-deferred in several orders, each leaf failing/done, "
        "stop injected at every position (before connect/start, inside each leaf start, between driver "
        "steps, inside each callable, after the end) x leaf stop reactions, plus seeded mixes (<=%d per "
        "program). evaluations = scenario executions; distinct_nontrivial = distinct (program, observed "
        "order of driver/stop/leaf-completion events) among scenarios with >=1 deferred leaf, failure, "
        "stop or injected throw. %s" % (depth, leaves, budget, extra_rule))
    if cov_total["evaluations"] and cov_total["inconclusive"] > 0.05 * cov_total["evaluations"] and not verdict.has_new():
        raise core.HarnessFailure("too many inconclusive scenarios: %d of %d" %
                                  (cov_total["inconclusive"], cov_total["evaluations"]))
    return cov_total, list(ASSUME)
