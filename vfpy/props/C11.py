from ._expr_common import run_expr_prop
from .. import coro_check, mt_check, core


def run(tier, seed, verdict):
    # fault enumeration for programs containing via(): the hop onto the scheduler must happen on the exception paths too
    cov, assume = run_expr_prop("C11", tier, seed, verdict, variants=("asan20d",), faults=True, fault_ops=("via",),
                                fault_scenarios=4 if tier == "quick" else 12,
                                extra_rule="programs containing via() additionally run with each throwable point of their "
                                "first scenarios made to throw (rule: via(S, sch) completes on sch's context unless its "
                                "completion sender could not be connected).")
    # "a task<> resumes on its scheduler after every co_await": (a) det: the root completion of every generated task plan
    # must carry the receiver scheduler's context tag (task<> declares is_always_scheduler_affine); (b) mt: every resumption
    # of a task body / cleanup action in harness/src/coromt.cpp must run on the thread of the task's timed context even when
    # the stop request comes from another context's thread
    n, budget = (12, 40) if tier == "quick" else (100, 100)
    cr = coro_check.CoroRun(seed, n, budget, "asan20d")
    cr.build()
    cr.execute({"C11": verdict})
    c2 = cr.coverage()
    res = mt_check.MtResult()
    it = 800 if tier == "quick" else 8000
    a = [["seed=%d" % (seed * 100 + 50 + i), "iters=%d" % it, "perturb=%d" % (i % 2)] for i in range(3 if tier == "quick" else 8)]
    mt_check.run_mt("C11", "coromt", "asan20d", a, verdict, res, timeout=1800, accept=("C11",))
    core.require_observed(verdict, [k for k in ("outcome_value", "outcome_done") if not res.stats.get(k)], "coromt")
    cov["coroutine_scenarios"] = c2["evaluations"]
    cov["coroutine_mt_rounds"] = res.stats.get("rounds_total", 0)
    cov["coroutine_mt_steps_checked_for_thread"] = res.stats.get("steps_run", 0)
    cov["evaluations"] += c2["evaluations"] + res.stats.get("rounds_total", 0)
    cov["rule"] += (" Additionally %d task<> plan sets (root completion context) and %d multi-threaded task rounds (thread of "
                    "every resumption)." % (n, res.stats.get("rounds_total", 0)))
    return cov, assume, "exploration"
