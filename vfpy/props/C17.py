"""C17: bulk_schedule index coverage; find_if exactness and range safety (exhaustive over enumerated lengths)."""
from .. import core, mt_check


def run(tier, seed, verdict):
    quick = tier == "quick"
    res = mt_check.MtResult()
    a = [["seed=%d" % seed, "mode=bulk", "thorough=%d" % (0 if quick else 1)], ["seed=%d" % seed, "mode=policy"]]
    if quick:
        # every length 0..200 plus a stride through the rest and the chunking boundaries
        a += [["seed=%d" % seed, "mode=find", "lo=0", "hi=200", "step=1"],
              ["seed=%d" % (seed + 1), "mode=find", "lo=201", "hi=1100", "step=7"],
              ["seed=%d" % (seed + 2), "mode=find", "lo=985", "hi=1000", "step=1"]]
    else:
        for lo in range(0, 1101, 100):
            a.append(["seed=%d" % (seed + lo), "mode=find", "lo=%d" % lo, "hi=%d" % min(lo + 99, 1100), "step=1"])
    mt_check.run_mt("C17", "bulk", "asan20d", a, verdict, res, timeout=1200)
    if not quick:
        mt_check.run_mt("C17", "bulk", "tsan20d", [["seed=%d" % seed, "mode=bulk", "thorough=0"],
                                                  ["seed=%d" % seed, "mode=find", "lo=0", "hi=400", "step=3"]],
                        verdict, res, timeout=1200)
    st = res.stats
    if not st.get("bulk_cases") or not st.get("find_if_cases") or not st.get("bulk_stop_cases") or \
            not st.get("policy_cases") or not st.get("policy_overlapping_calls_seen"):
        raise core.HarnessFailure("bulk harness observed nothing: %s" % st)
    cov = {
        "evaluations": st.get("bulk_cases", 0) + st.get("find_if_cases", 0) + st.get("policy_cases", 0),
        "distinct_nontrivial": st.get("bulk_cases", 0) + st.get("find_if_cases", 0) + st.get("policy_cases", 0),
        "rule": "cases are enumerated, not sampled, so every evaluation is a distinct input: bulk_schedule(n) for "
                "n in {0..40 (thorough: 0..70), 255, 256, 257, 1000, 4096} x policies {seq, unseq, par, par_unseq} x "
                "schedulers {inline, single thread, pool(4)} x {no stop, stop requested from inside set_next at every "
                "chunk boundary and one random index}; bulk_transform/bulk_join/indexed_for stacks over the same sizes; "
                "find_if over exactly-sized heap ranges for the enumerated lengths (quick: 0..200, every 7th to 1100, "
                "985..1000; thorough: every length 0..1100) x policies {seq, par} x match position {none, first, middle, "
                "last, several}; execution-policy composition: bulk_transform(bulk_transform(src, f1, P1), f2, P2) connected "
                "to a receiver of policy P3 for all 4x4x4 policy triples x n in {0,1,7,24}, over a source that honours the "
                "advertised policy (three rendezvousing threads when parallel is permitted): the advertised policy must be "
                "the intersection, and no function/receiver that did not permit parallel execution may see overlapping "
                "calls (the run must have produced overlapping calls where they are permitted)",
        "samples": ["bulk_schedule: %d cases (%d with stop), %d indices visited" % (
            st.get("bulk_cases", 0), st.get("bulk_stop_cases", 0), st.get("bulk_indices_visited", 0)),
            "find_if: %d cases, %d predicate calls" % (st.get("find_if_cases", 0), st.get("find_if_predicate_calls", 0)),
            "policy composition: %d cases, %d parallel runs, %d overlapping calls observed where permitted" % (
                st.get("policy_cases", 0), st.get("policy_parallel_runs", 0), st.get("policy_overlapping_calls_seen", 0))],
        "counts": dict(st),
        "sanitizer": {"asan_runs": res.san_runs["asan"], "tsan_runs": res.san_runs["tsan"],
                      "tsan_reports": res.tsan_reports},
        "processes": res.runs, "inconclusive": res.inconclusive,
        "exhaustive": not quick,
    }
    assume = [
        "exhaustive means: over the enumerated lengths/policies/positions listed in `rule`, not over all inputs",
        "the predicate monitor checks the address it is given; ASan additionally watches the exactly-sized heap range",
        "parallel policies are exercised on static_thread_pool(4); bulk_schedule's default implementation runs indices on one thread",
    ]
    return cov, assume, "exploration"
