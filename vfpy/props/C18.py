"""C18: type-erased wrappers are transparent (model-based sequences + wrapper insertion in generated programs)."""
import random

from .. import core, expr_check, gen_expr, gen_stream, mt_check
from ._expr_common import ASSUME


def _force_any_sender(progs, seed):
    rng = random.Random(seed)
    out = []
    for (pid, spec, tok, lv) in progs:
        if not gen_expr.has_op(spec, ("any_sender",)):
            # wrap the root: any_sender_of<val> or <> depending on the root's value type is not tracked here,
            # so insert around a fresh copy only when the generator recorded the type; otherwise keep as is
            vt = spec.get("ret") or spec.get("vt")
            if vt in ("val", "void"):
                spec = {"op": "any_sender", "kid": spec, "vt": vt}
        out.append((pid, spec, tok, lv))
    return out


def _force_type_erase(progs):
    out = []
    for (pid, spec, tok, lv) in progs:
        st = spec["stream"]
        if not any(n.get("s") == "type_erase" for n in gen_expr.walk(spec)):
            spec = dict(spec)
            spec["stream"] = {"s": "type_erase", "src": st}
        out.append((pid, spec, tok, lv))
    return out


def run(tier, seed, verdict):
    quick = tier == "quick"
    res = mt_check.MtResult()
    # (b) model-based operation sequences on any_object / any_unique / any_ref
    iters = 2500 if quick else 25000
    n = 4 if quick else 12
    mt_check.run_mt("C18", "erase", "asan20d",
                    [["seed=%d" % (seed * 10 + i), "iters=%d" % iters] for i in range(n)], verdict, res, timeout=1800)
    # any_scheduler wrapping a real context (completion thread, FIFO, equality of copies)
    mt_check.run_mt("C18", "sched", "asan20d", [["seed=%d" % seed, "mode=anysched", "iters=%d" % (6 if quick else 200),
                                                "per=150", "threads=4"]], verdict, res, accept=("C18", "C06", "C01"))
    # (a) any_sender_of inserted in generated sender expressions, checked against the same reference model
    npg, per, depth, leaves, budget = (18, 3, 3, 5, 120) if quick else (60, 4, 4, 6, 400)
    ops = {"any_sender", "then", "let_value", "let_done", "let_error", "finally", "via", "on", "sequence", "when_all",
           "stop_when", "unstoppable", "with_query", "lvw_stop_source", "materialize_c", "dao_c"}
    progs = _force_any_sender(gen_expr.generate(seed + 1000, npg, depth, leaves, ops), seed)
    alias = {p: "C18" for p in ("C01", "C02", "C04", "C05", "C11", "C12")}
    r1 = expr_check.ExprRun(seed, npg, per, depth, leaves, "asan20d", budget, name="erase-expr", programs=progs, alias=alias)
    r1.build()
    r1.execute({"C18": verdict}, None)
    # type_erased_stream inserted in generated pipelines
    sp = _force_type_erase(gen_stream.generate(seed + 2000, 9 if quick else 40, 2 if quick else 3))
    alias2 = dict(alias)
    alias2["C13"] = "C18"
    r2 = expr_check.ExprRun(seed, len(sp), 3, 3, 5, "asan20d", budget, name="erase-stream", programs=sp,
                            scn_fn=gen_stream.scenarios_for, alias=alias2)
    r2.build()
    r2.execute({"C18": verdict}, None)
    st = res.stats
    core.require_observed(verdict, [k for k in ("histories", "objects_stored_on_heap", "objects_stored_inline",
                                                  "exceptions_propagated", "anysched_items", "throwing_move_assignments")
                                    if not st.get(k)], "erase harness")
    c1, c2 = r1.coverage(), r2.coverage()
    cov = {
        "evaluations": st.get("histories", 0) + c1["evaluations"] + c2["evaluations"],
        "distinct_nontrivial": st.get("distinct_histories", 0) + c1["distinct_nontrivial"] + c2["distinct_nontrivial"],
        "rule": "three parts. (1) histories: seeded random sequences of 3-12 operations {in-place construct of a small / "
                "200-byte / throwing-move / 64-byte-aligned tracked object, move-construct, move-assign, self-move-assign, move-assign "
                "whose wrapped move constructor throws (destination destroyed exactly once and left empty-but-valid), "
                "assign-from-value, CPO call, destroy} over 4 wrapper slots, for any_object_t, basic_any_object with inline "
                "sizes 8/256/32 (custom counting allocator; noexcept-move required or not), any_unique_t with the counting "
                "allocator, any_ref_t; checked against a slot model (which lineage each wrapper must report, heap hand-over vs "
                "inline move exactly once, never copied), ledger and allocator balance at the end; distinct = distinct "
                "operation-sequence strings. (2) generated sender expressions with any_sender_of inserted, and (3) generated "
                "stream pipelines with type_erase inserted, both compared with the reference model in which the wrapper is the "
                "identity on completions and forwards only its declared queries; distinct as for C05/C13",
        "samples": (res.samples[:3] or ["(no sample)"]) + c1["samples"][:2] + c2["samples"][:1],
        "wrapper_histories": st.get("histories", 0), "wrapper_operations": st.get("operations", 0),
        "objects_stored_inline": st.get("objects_stored_inline", 0),
        "objects_stored_on_heap": st.get("objects_stored_on_heap", 0),
        "exceptions_propagated": st.get("exceptions_propagated", 0),
        "any_scheduler_items": st.get("anysched_items", 0),
        "any_sender_programs": c1["programs"], "any_sender_scenarios": c1["evaluations"],
        "type_erased_stream_programs": c2["programs"], "type_erased_stream_scenarios": c2["evaluations"],
        "exhaustive": False,
    }
    assume = list(ASSUME) + [
        "a heap-stored any_object that has been moved from is only destroyed or assigned to afterwards (it holds no object)",
        "any_unique is exercised with a CPO taking `this_&` (its holder exposes no const accessor for non-catch-all CPOs)",
    ]
    return cov, assume, "exploration"
