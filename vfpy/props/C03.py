"""C03: stop-token protocol (stoptok harness under ASan and TSan)."""
from .. import core, mt_check


def run(tier, seed, verdict):
    quick = tier == "quick"
    procs = 5   # each process runs 2-7 busy threads; more processes than cores/3 only adds contention
    iters = 1600 if quick else 12000
    victims = (0, 101, 102, 104, 103, 105)
    res = mt_check.MtResult()
    # ASan: freed callback storage is poisoned the moment deregistration returns
    mt_check.run_mt("C03", "stoptok", "asan20d",
                    mt_check.seeds_args(seed, procs, ["iters=%d" % iters, "maxR=%d" % (2 if quick else 4),
                                                      "maxS=%d" % (2 if quick else 3)], victims),
                    verdict, res, timeout=900 if quick else 5400)
    # TSan (clang): happens-before analysis of the same workload
    mt_check.run_mt("C03", "stoptok", "tsan20d",
                    mt_check.seeds_args(seed + 7, procs, ["iters=%d" % (iters // 2), "maxR=%d" % (2 if quick else 4),
                                                          "maxS=%d" % (2 if quick else 3)], victims),
                    verdict, res, timeout=900 if quick else 5400)
    st = res.stats
    outcomes = {k: v for k, v in st.items() if k.startswith("outcome_")}
    need = ["outcome_destructor_waited_for_running_callback", "outcome_inline_execution_in_constructor",
            "outcome_self_deregistration_inside_callback", "outcome_sibling_destroyed_from_callback",
            "outcome_second_requester_lost"]
    missing = [k for k in need if not outcomes.get(k)]
    if not res.hooks.get("101"):
        missing = missing + ["hook 101"]
    core.require_observed(verdict, missing, "stoptok")
    cov = {
        "evaluations": st.get("histories", 0),
        "distinct_nontrivial": sum(1 for v in outcomes.values() if v) + len([h for h in res.hooks.values() if h]),
        "rule": "each evaluation is one short concurrent history (1-4 registering threads, 1-3 requesting threads, "
                "2-6 callbacks of kinds plain / self-deregistering / sibling-destroying / re-registering) on an "
                "inplace_stop_source, a fused_stop_source over two upstream tokens or an inplace_stop_token_adapter; "
                "histories are not hashed, so distinct_nontrivial counts conservatively only the distinct racy outcome "
                "classes that were actually observed (race_outcomes) plus the distinct hook sites that were hit",
        "samples": res.samples[:6] or ["(no sample)"],
        "race_outcomes": outcomes,
        "hook_hits": res.hooks,
        "callbacks_executed": st.get("callbacks_executed", 0),
        "callbacks_not_executed": st.get("callbacks_not_executed", 0),
        "sanitizer": {"asan_runs": res.san_runs["asan"], "tsan_runs": res.san_runs["tsan"],
                      "tsan_reports": res.tsan_reports},
        "processes": res.runs,
        "inconclusive": res.inconclusive,
        "exhaustive": False,
    }
    assume = [
        "real-time order is derived from one relaxed global counter (ret(a) < call(b) only)",
        "schedules are those the OS produced under seeded delay injection at hook sites 101-105; "
        "windows inside the spin-lock critical sections are covered only by TSan's happens-before analysis",
        "request_stop() is never called on a destroyed source (precondition)",
    ]
    return cov, assume, "exploration"
