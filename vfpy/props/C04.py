from ._expr_common import run_expr_prop
from .. import coro_check


def run(tier, seed, verdict):
    cov, assume = run_expr_prop("C04", tier, seed, verdict, variants=("asan20d",))
    # task<> registers stop callbacks (stop-request thunk, token adapter) on its receiver's token as well: the
    # deregistration clause is monitored on the coroutine harness too (counting-token rule M4, source freed at completion)
    n, budget = (16, 40) if tier == "quick" else (120, 100)
    cr = coro_check.CoroRun(seed, n, budget, "asan20d")
    cr.build()
    cr.execute({"C04": verdict})
    c2 = cr.coverage()
    cov["coroutine_scenarios"] = c2["evaluations"]
    cov["coroutine_stop_deliveries"] = c2["stop_requests_seen_by_awaited_leaves"]
    cov["evaluations"] += c2["evaluations"]
    cov["crashed_processes"] += c2["crashed_processes"]
    cov["rule"] += (" Additionally %d task<> plan sets (harness/src/coro.cpp) x stop positions with counting / inplace tokens: "
                    "registrations left on the receiver's token at completion (M4) and use of a freed source." % n)
    return cov, assume, "exploration"
