from ._expr_common import run_expr_prop
from .. import coro_check, expr_check, gen_stream
from . import C13


def run(tier, seed, verdict):
    cov, assume = run_expr_prop("C04", tier, seed, verdict, variants=("asan20d",))
    # task<> registers stop callbacks (stop-request thunk, token adapter) on its receiver's token as well: the
    # deregistration clause is monitored on the coroutine harness too (counting-token rule M4, source freed at completion)
    n, budget = (16, 40) if tier == "quick" else (100, 100)
    cr = coro_check.CoroRun(seed, n, budget, "asan20d")
    cr.build()
    cr.execute({"C04": verdict})
    c2 = cr.coverage()
    cov["coroutine_scenarios"] = c2["evaluations"]
    cov["coroutine_stop_deliveries"] = c2["stop_requests_seen_by_awaited_leaves"]
    cov["evaluations"] += c2["evaluations"]
    cov["crashed_processes"] += c2["crashed_processes"]
    cov["rule"] += (" Additionally %d task<> plan sets (harness/src/coro.cpp) x stop positions with counting / inplace tokens: "
                    "registrations left on the receiver's token at completion (M4) and use of a freed source." % n)
    # stream adaptors (take_until, stop_immediately-free subset, type_erase) register stop callbacks per next()/cleanup():
    # same programs and scenarios as C13, judged here only by the registration/stop rules (M4, leaf token state, crashes in
    # the stop-token machinery)
    sn, sper, sdepth, sbudget = C13.TIERS[tier]
    progs = gen_stream.generate(seed, sn, sdepth)
    sr = expr_check.ExprRun(seed, sn, sper, sdepth, 5, "asan20d", sbudget, name="stream", programs=progs,
                            scn_fn=gen_stream.scenarios_for)
    sr.build()
    sr.execute({"C04": verdict}, None)
    c3 = sr.coverage()
    cov["stream_scenarios"] = c3["evaluations"]
    cov["evaluations"] += c3["evaluations"]
    cov["crashed_processes"] += c3["crashed_processes"]
    cov["rule"] += " Additionally the %d generated stream pipelines of C13 (same scenarios), judged by the same stop/registration rules." % sn
    return cov, assume, "exploration"
