from ._expr_common import run_expr_prop


def run(tier, seed, verdict):
    # exactly-once is also demanded on the exception paths: single-fault enumeration (each throwable point of the first
    # scenarios of every program made to throw: callables, value copies/moves, leaf connects, allocations), judged by the
    # protocol monitor M1 (double completion, completion before start, lost completion)
    cov, assume = run_expr_prop("C01", tier, seed, verdict, variants=("asan20d",), faults=True,
                                fault_scenarios=4 if tier == "quick" else 12,
                                extra_rule="fault enumeration: for the first 4 (thorough: 12) scenarios of every program each "
                                "throwable point is made to throw in its own run (protocol rules only).")
    return cov, assume, "exploration"
