from ._expr_common import run_expr_prop
from .. import core, mt_check


def run(tier, seed, verdict):
    # exactly-once is also demanded on the exception paths: single-fault enumeration (each throwable point of the first
    # scenarios of every program made to throw: callables, value copies/moves, leaf connects, allocations), judged by the
    # protocol monitor M1 (double completion, completion before start, lost completion)
    cov, assume = run_expr_prop("C01", tier, seed, verdict, variants=("asan20d",), faults=True,
                                fault_scenarios=4 if tier == "quick" else 12,
                                extra_rule="fault enumeration: for the first 4 (thorough: 12) scenarios of every program each "
                                "throwable point is made to throw in its own run (protocol rules only).")
    # the property also names schedulers and timers: the scheduler stress harness (every started schedule() completes
    # exactly once; an accepted item still pending after its context was stopped/destroyed is a lost completion) is run
    # with this property's verdict on the contexts whose shutdown/idle protocol can drop an accepted operation
    res = mt_check.MtResult()
    quick = tier == "quick"
    a = []
    for i, (mode, victim) in enumerate((("pool", 411), ("loop", 401), ("timed", 423), ("newthread", 0))):
        a.append(["seed=%d" % (seed * 100 + 80 + i), "victim=%d" % victim, "mode=" + mode, "iters=%d" % (10 if quick else 100),
                  "per=%d" % (150 if quick else 400), "threads=%d" % (4 if quick else 8)])
    mt_check.run_mt("C01", "sched", "asan20d", a, verdict, res, timeout=900, accept=("C01", "C06"))
    core.require_observed(verdict, [k for k in ("pool_items", "loop_items", "timed_items", "newthread_items")
                                    if not res.stats.get(k)], "scheduler stress (C01)")
    cov["scheduler_items"] = res.stats.get("items_total", 0)
    cov["evaluations"] += res.stats.get("items_total", 0)
    cov["rule"] += (" Plus the scheduler stress harness (static_thread_pool, manual_event_loop, timed_single_thread_context, "
                    "new_thread_context): bursts of schedule() operations from several threads separated by idle gaps, the "
                    "context stopped/destroyed right after the last accepted item; each operation must complete exactly once.")
    assume.append("scheduler part: an accepted item still pending 30 s after its context was stopped/destroyed is a lost completion")
    return cov, assume, "exploration"
