"""C16: manual-reset events v1/v2, auto-reset event (async_pass: see pass harness)."""
from .. import core, mt_check


def run(tier, seed, verdict):
    quick = tier == "quick"
    iters = 500 if quick else 20000
    res = mt_check.MtResult()
    for variant in ("asan20d", "tsan20d"):
        it = iters if variant.startswith("asan") else iters // 2
        a = []
        for i, (mode, victims) in enumerate((("event1", (0, 301, 302)), ("event2", (0, 311, 312, 334, 335, 333, 344)),
                                             ("autoreset", (0, 301)))):
            n = 2 if quick else 4
            a += [x + ["mode=" + mode, "iters=%d" % it] for x in mt_check.seeds_args(seed + 10 * i, n, [], victims)]
        mt_check.run_mt("C16", "sync", variant, a, verdict, res, timeout=900)
    st = res.stats
    need = ["event_v1_outcome_woken_by_later_set", "event_v2_outcome_woken_by_later_set",
            "event_v2_outcome_cancelled_done", "event_v2_outcome_stop_lost_race_value",
            "event_v1_rounds_with_concurrent_reset", "autoreset_values", "autoreset_cancelled_rounds"]
    missing = [k for k in need if not st.get(k)]
    if missing:
        raise core.HarnessFailure("event stress observed none of: %s" % missing)
    outcomes = {k: v for k, v in st.items() if "outcome" in k or k.startswith("autoreset") or "rounds" in k}
    cov = {
        "evaluations": st.get("event_v1_rounds", 0) + st.get("event_v2_rounds", 0) + st.get("autoreset_rounds", 0),
        "distinct_nontrivial": sum(1 for v in outcomes.values() if v) + sum(1 for v in res.hooks.values() if v),
        "rule": "each evaluation is one short concurrent history on a fresh event: 1-3 waiters (v2: a third are "
                "cancelled at a random time), 1-2 setters, optionally a resetting thread; then quiescent checks "
                "(all waiters complete after a set, none completes without one, reset only affects later waits) and a "
                "final set(); auto-reset: producer set()/set_done() vs a consuming stream, optionally cancelled. "
                "distinct_nontrivial counts conservatively the distinct outcome classes observed plus hook sites hit",
        "samples": ["v1 waits=%d (woken by a later set: %d), v2 waits=%d (cancelled: %d, stop lost race: %d), "
                    "auto-reset: %d values for %d set() calls" % (
                        st.get("event_v1_waits", 0), st.get("event_v1_outcome_woken_by_later_set", 0),
                        st.get("event_v2_waits", 0), st.get("event_v2_outcome_cancelled_done", 0),
                        st.get("event_v2_outcome_stop_lost_race_value", 0), st.get("autoreset_values", 0),
                        st.get("autoreset_sets", 0))],
        "race_outcomes": outcomes,
        "hook_hits": res.hooks,
        "sanitizer": {"asan_runs": res.san_runs["asan"], "tsan_runs": res.san_runs["tsan"],
                      "tsan_reports": res.tsan_reports},
        "processes": res.runs, "inconclusive": res.inconclusive, "exhaustive": False,
    }
    assume = [
        "stranded waiters are detected as a wait still pending 30 s after a set() returned",
        "value completions must arrive on the receiver's scheduler thread (single_thread_context); done completions "
        "are delivered where stop was requested",
        "async_pass is not covered by this run (the pass harness is separate)",
    ]
    return cov, assume, "exploration"
