"""C16: manual-reset events v1/v2, auto-reset event (harness sync.cpp) and async_pass (harness pass.cpp)."""
from .. import core, mt_check


def run(tier, seed, verdict):
    quick = tier == "quick"
    iters = 500 if quick else 2500
    res = mt_check.MtResult()
    for variant in ("asan20d", "tsan20d"):
        it = iters if variant.startswith("asan") else iters // 2
        a = []
        for i, (mode, victims) in enumerate((("event1", (0, 301, 302)), ("event2", (0, 311, 312, 334, 335, 333, 344)),
                                             ("autoreset", (0, 301)))):
            n = 2 if quick else 4
            a += [x + ["mode=" + mode, "iters=%d" % it] for x in mt_check.seeds_args(seed + 10 * i, n, [], victims)]
        mt_check.run_mt("C16", "sync", variant, a, verdict, res, timeout=900 if quick else 3600)
        # async_pass rendezvous (hook sites 321-326 async_pass, 341-345 cancellable)
        pn = (4000 if quick else 40000) // (1 if variant.startswith("asan") else 2)
        pa = [["seed=%d" % (seed * 100 + 70 + i), "iters=%d" % pn, "perturb=1", "victim=%d" % v]
              for i, v in enumerate((0, 324, 326, 342) if quick else (0, 321, 322, 323, 324, 325, 326, 342, 343))]
        mt_check.run_mt("C16", "pass", variant, pa, verdict, res, timeout=900 if quick else 3600)
    st = res.stats
    need = ["event_v1_outcome_woken_by_later_set", "event_v2_outcome_woken_by_later_set",
            "event_v2_outcome_cancelled_done", "event_v2_outcome_stop_lost_race_value",
            "event_v2_tight_cancel_won", "event_v2_tight_set_won",
            "event_v1_rounds_with_concurrent_reset", "autoreset_values", "autoreset_cancelled_rounds",
            "call_cancelled", "accept_cancelled", "cancel_lost_race", "plain_rendezvous", "try_call_served",
            "try_accept_served", "idle_try_checked"]
    missing = [k for k in need if not st.get(k)]
    core.require_observed(verdict, missing, "event stress")
    PASS = ("call_cancelled", "accept_cancelled", "cancel_lost_race", "plain_rendezvous", "try_call_served",
            "try_accept_served", "idle_try_checked")
    outcomes = {k: v for k, v in st.items() if "outcome" in k or k.startswith("autoreset") or "rounds" in k or k in PASS}
    cov = {
        "evaluations": st.get("event_v1_rounds", 0) + st.get("event_v2_rounds", 0) + st.get("autoreset_rounds", 0) +
        st.get("rounds_total", 0),
        "distinct_nontrivial": sum(1 for v in outcomes.values() if v) + sum(1 for v in res.hooks.values() if v),
        "rule": "each evaluation is one short concurrent history on a fresh event: 1-3 waiters (v2: a third are "
                "cancelled at a random time), 1-2 setters, optionally a resetting thread; then quiescent checks "
                "(all waiters complete after a set, none completes without one, reset only affects later waits) and a "
                "final set(); v2 also: 20 tight rounds per history - 2-4 waiters queued first, then one thread cancels a chosen "
                "waiter (the oldest half of the time) while another calls set(), released together with 0-400 ns of jitter, every "
                "waiter must complete exactly once (both race outcomes must have been observed); auto-reset: producer set()/set_done() vs a consuming stream, optionally cancelled; async_pass: one "
                "round per fresh pass - async_call vs async_accept started from two threads in either order or together, a "
                "stop request on one side at a random time, the survivor served by try_call/try_accept, or a parked side served "
                "by try_*; payload ids unique; checked: value iff delivered, payload exact, cancelled side leaves the other waiting "
                "and the argument untouched, try_* fail on an idle pass, completion on the waiter's own scheduler thread. "
                "distinct_nontrivial counts conservatively the distinct outcome classes observed plus hook sites hit",
        "samples": ["v1 waits=%d (woken by a later set: %d), v2 waits=%d (cancelled: %d, stop lost race: %d), "
                    "auto-reset: %d values for %d set() calls" % (
                        st.get("event_v1_waits", 0), st.get("event_v1_outcome_woken_by_later_set", 0),
                        st.get("event_v2_waits", 0), st.get("event_v2_outcome_cancelled_done", 0),
                        st.get("event_v2_outcome_stop_lost_race_value", 0), st.get("autoreset_values", 0),
                        st.get("autoreset_sets", 0))],
        "race_outcomes": outcomes,
        "hook_hits": res.hooks,
        "sanitizer": {"asan_runs": res.san_runs["asan"], "tsan_runs": res.san_runs["tsan"],
                      "tsan_reports": res.tsan_reports},
        "processes": res.runs, "inconclusive": res.inconclusive, "exhaustive": False,
    }
    assume = [
        "stranded waiters are detected as a wait still pending 30 s after a set() returned",
        "value completions must arrive on the receiver's scheduler thread (single_thread_context); done completions "
        "are delivered where stop was requested",
        "async_pass: one caller and one acceptor at a time (two parked callers terminate by contract); async_throw is not driven",
    ]
    return cov, assume, "exploration"
