"""C06: schedulers run every item once, on their context, losing none."""
from .. import core, mt_check

MODES = [("loop", 401), ("stc", 402), ("pool", 411), ("timed", 423), ("newthread", 0), ("anysched", 401),
         ("inline", 0), ("tuel", 0), ("trampoline", 0), ("subsched", 0)]


def run(tier, seed, verdict):
    quick = tier == "quick"
    rounds = 12 if quick else 120
    per = 150 if quick else 400
    res = mt_check.MtResult()
    for variant in ("asan20d", "tsan20d"):
        rr = rounds if variant.startswith("asan") else max(4, rounds // 3)
        a = []
        for i, (mode, victim) in enumerate(MODES):
            for j, v in enumerate((0, victim) if victim else (0,)):
                it = rr * (20 if mode == "trampoline" else 1)
                a.append(["seed=%d" % (seed * 100 + i * 3 + j), "victim=%d" % v, "mode=" + mode, "iters=%d" % it,
                          "per=%d" % per, "threads=%d" % (4 if quick else 8)])
        mt_check.run_mt("C06", "sched", variant, a, verdict, res, timeout=900, accept=("C06", "C01", "C02", "C18"))
    st = res.stats
    need = ["loop_items", "stc_items", "pool_items", "timed_items", "newthread_items", "anysched_items",
            "inline_items", "tuel_items", "trampoline_items", "subsched_items", "loop_done_stop_before_start",
            "stc_fifo_checked"]
    missing = [k for k in need if not st.get(k)]
    core.require_observed(verdict, missing, "scheduler stress")
    cov = {
        "evaluations": st.get("items_total", 0),
        "distinct_nontrivial": sum(1 for k, v in st.items() if v) + sum(1 for v in res.hooks.values() if v),
        "rule": "each evaluation is one schedule() operation started by 1-8 producer threads in bursts separated by idle "
                "gaps (the context repeatedly drains, sleeps and must be woken), a sixth of them with stop requested before "
                "start; per round the context is stopped/destroyed right after the last accepted item. Contexts: "
                "manual_event_loop, single_thread_context, static_thread_pool(1/2/4/16), timed_single_thread_context, "
                "new_thread_context, any_scheduler, inline, thread_unsafe_event_loop, trampoline(0/1/2/16 x up to 1000 "
                "nested items), schedule_with_subscheduler. distinct_nontrivial counts conservatively the non-zero outcome "
                "counters per context plus hook sites hit",
        "samples": ["%s: %d items" % (m, st.get(m + "_items", 0)) for m, _ in MODES],
        "race_outcomes": dict(st),
        "hook_hits": res.hooks,
        "sanitizer": {"asan_runs": res.san_runs["asan"], "tsan_runs": res.san_runs["tsan"],
                      "tsan_reports": res.tsan_reports},
        "processes": res.runs, "inconclusive": res.inconclusive, "exhaustive": False,
    }
    assume = [
        "an accepted item still pending 30 s after its context was stopped/destroyed or drained is a lost item",
        "FIFO is judged only between items whose start() calls were real-time ordered, on single-threaded loops",
        "timed_single_thread_context is destroyed only after all its operations completed (its documented precondition)",
        "fairness/starvation and the Windows contexts are not covered",
    ]
    return cov, assume, "exploration"
