"""C20: build configuration never changes results; async-stack bookkeeping balanced (cross-configuration differential)."""
import random

from .. import core, expr_check, gen_expr, gen_stream, coro_check, coro_model
from ._expr_common import ASSUME


def run(tier, seed, verdict):
    quick = tier == "quick"
    variants = ["cfg17r0", "cfg20d1"] if quick else ["cfg17r0", "cfg17r1", "cfg17d0", "cfg17d1",
                                                    "cfg20r0", "cfg20r1", "cfg20d0", "cfg20d1"]
    npg, budget = (18, 40) if quick else (60, 100)
    progs = gen_expr.generate(seed + 500, npg, 3, 5) + gen_stream.generate(seed + 500, 6 if quick else 20, 2)
    # C++17 configurations cannot use stop_if_requested(): keep the program set identical across configurations
    progs = [p for p in progs if not gen_expr.has_op(p[1], ("stop_if_requested",))]
    # the same scenario list for every configuration
    rng = random.Random(seed * 977 + 5)
    scen = {}
    for (pid, spec, tok, lv) in progs:
        fn = gen_stream.scenarios_for if "stream" in spec else expr_check.scenarios_for
        scen[pid] = fn(spec, tok, rng, budget)
        if gen_expr.has_op(spec, ("lvw_stop_source", "lvw_stop_token", "any_sender")):
            # users of fused_stop_source / inplace_stop_token_adapter: with a stop request the recorded use-after-free
            # (source destroyed inside its own request_stop, e.g. when sequence() destroys the finished predecessor from
            # inside the stop callback) makes the unsanitized configurations crash or spin without a report to key on;
            # the differential keeps these programs but without stop injection
            scen[pid] = [sc for sc in scen[pid] if not sc.get("stop", (0, 0, 0))[0]]
        for sc in scen[pid]:
            # this differential is about results, not lifetimes: the receiver neither destroys the operation nor frees its
            # stop source inside the completion here (those regimes are C02/C04's and, where the library has a recorded
            # use-after-free, would crash the unsanitized configurations without a report to key on)
            sc["dic"] = sc["fsc"] = sc["poison"] = 0
    logs = {}
    traits = {}
    stats = {"evaluations": 0, "distinct": set(), "compared": 0}
    samples = []
    for variant in variants:
        run_ = expr_check.ExprRun(seed, len(progs), 3, 3, 5, variant, budget, name="cfgdiff", programs=progs)
        run_.build()
        alive = set(p[0] for p in run_.progs)   # programs this configuration could compile (grammar corners are dropped)
        stats.setdefault("dropped", {})[variant] = sorted(set(p[0] for p in progs) - alive)

        def one(job):
            pid, spec, tok, lv = job
            lines = [expr_check.scn_line(pid, i + 1, sc) for i, sc in enumerate(scen[pid])]
            return job, run_.run_batch(lines)

        for job, (results, crashes) in core.parallel(one, [p for p in progs if p[0] in alive]):
            pid, spec, tok, lv = job
            for (sid, err, rc, timed_out) in crashes:
                ss = core.san_summary(err)
                verdict.violation("C20:cfgdiff:%s:died:%s" % (variant, (ss[0] + ":" + ">".join(ss[1][:3])) if ss else "rc%s" % rc),
                                  "process died under configuration %s" % variant,
                                  "program %d: %s\nvariant %s\n\n%s" % (pid, gen_expr.cpp(spec), variant, err[-5000:]))
            for sid, info in results.items():
                if not info["complete"]:
                    continue
                stats["evaluations"] += 1
                for l in info["lines"]:
                    if l.startswith("V M13"):
                        verdict.violation("C20:cfgdiff:%s:async-stack:%s" % (variant, l[2:].replace(" ", "_")), l,
                                          "program %d: %s\nscenario: %s\nvariant %s\n\n%s" % (
                                              pid, gen_expr.cpp(spec), expr_check.scn_line(pid, sid, scen[pid][sid - 1]), variant,
                                              "\n".join(info["lines"])))
                canon = expr_check.comparable(info["lines"])
                logs.setdefault((pid, sid), {})[variant] = canon
                P = [l for l in info["lines"] if l.startswith("P ")]
                traits.setdefault((pid, sid), {})[variant] = P[0] if P else ""
    # coroutine expressions (C++20 configurations only): the same task<> plans and scenarios under each of them; the
    # canonical logs must agree, no configuration may die, and where tracing is on (debug + visitation) async_trace from
    # inside a task must reach the outer receiver ("Z ... root=1")
    cvars = [v for v in variants if v.startswith("cfg20")]
    if quick:
        cvars = ["cfg20r0", "cfg20d1"]
    crng = random.Random(seed * 131 + 9)
    plansets = [coro_check.gen_plans(crng) for _ in range(10 if quick else 60)]
    for plans in plansets:
        # every plan set takes at least one async_trace from inside a task body (root plan and, if any, the deepest plan)
        for pl in (plans[0], plans[-1]):
            pl[1].insert(crng.randint(0, len(pl[1])), ("z", 0))
    cjobs = []
    csid = 0
    for pi, plans in enumerate(plansets):
        for prog in (1, 2):
            for sc in coro_check.scenarios_for(plans, prog, crng, 30 if quick else 80):
                sc["dic"] = sc["fsc"] = sc["poison"] = 0
                csid += 1
                cjobs.append((csid, pi, prog, sc))
    clogs = {}
    cstats = {"evaluations": 0, "traces": 0, "traces_reaching_root": 0}
    for variant in cvars:
        cr = coro_check.CoroRun(seed, 0, 0, variant)
        cr.build()
        chunks = [cjobs[i::core.NCPU] for i in range(core.NCPU)]

        def run_chunk(chunk):
            lines = [coro_check.scn_line(prog, sid, sc, plansets[pi]) for sid, pi, prog, sc in chunk]
            return chunk, cr.run_batch(lines)

        for chunk, (results, crashes) in core.parallel(run_chunk, [c for c in chunks if c]):
            byid = {j[0]: j for j in chunk}
            for (sid, err, rc, timed_out) in crashes:
                ss = core.san_summary(err)
                j = byid.get(sid)
                what = (ss[0] + ":" + ">".join(ss[1][:3])) if ss else core.abort_summary(err, rc)
                verdict.violation("C20:cfgdiff-coro:%s:died:%s" % (variant, what),
                                  "task<> plan run died under configuration %s" % variant,
                                  "plans: %s\nscenario: %s\nvariant %s\n\n%s" % (
                                      coro_model.plan_text(plansets[j[1]]) if j else "?",
                                      coro_check.scn_line(j[2], 0, j[3], plansets[j[1]]) if j else "?", variant, err[-5000:]))
            for sid, pi, prog, sc in chunk:
                info = results.get(sid)
                if not info or not info["complete"]:
                    continue
                cstats["evaluations"] += 1
                for l in info["lines"]:
                    if l.startswith("V M13"):
                        verdict.violation("C20:cfgdiff-coro:%s:async-stack:%s" % (variant, l[2:].replace(" ", "_")), l,
                                          "plans: %s\nvariant %s\n\n%s" % (coro_model.plan_text(plansets[pi]), variant,
                                                                              "\n".join(info["lines"])))
                    if l.startswith("Z ") and variant.endswith("d1"):
                        cstats["traces"] += 1
                        if l.endswith("root=1"):
                            cstats["traces_reaching_root"] += 1
                        else:
                            verdict.violation("C20:cfgdiff-coro:%s:async_trace-does-not-reach-root" % variant, l,
                                              "plans: %s\nscenario: %s\nvariant %s\n\n%s" % (
                                                  coro_model.plan_text(plansets[pi]),
                                                  coro_check.scn_line(prog, 0, sc, plansets[pi]), variant, "\n".join(info["lines"])))
                clogs.setdefault(sid, {})[variant] = coro_check.canon(info["lines"])
    cbase = cvars[0]
    ccompared = 0
    for sid, byv in sorted(clogs.items()):
        if cbase not in byv:
            continue
        for v in cvars[1:]:
            if v not in byv:
                continue
            ccompared += 1
            if byv[v] != byv[cbase]:
                a, b = byv[cbase], byv[v]
                i = 0
                while i < min(len(a), len(b)) and a[i] == b[i]:
                    i += 1
                kind = (a[i] if i < len(a) else (b[i] if i < len(b) else "?")).split(" ", 1)[0]
                j = cjobs[sid - 1]
                verdict.violation("C20:cfgdiff-coro:%s-vs-%s:first-difference-%s" % (cbase, v, kind),
                                  "task<> event logs differ between configurations %s and %s" % (cbase, v),
                                  "plans: %s\nscenario: %s\n\n--- %s\n%s\n\n--- %s\n%s\n" % (
                                      coro_model.plan_text(plansets[j[1]]), coro_check.scn_line(j[2], 0, j[3], plansets[j[1]]),
                                      cbase, "\n".join(a), v, "\n".join(b)))
    stats["evaluations"] += cstats["evaluations"]
    base = variants[0]
    for (pid, sid), byv in sorted(logs.items()):
        if base not in byv:
            continue
        spec = next(p[1] for p in progs if p[0] == pid)
        for v in variants[1:]:
            if v not in byv:
                continue
            stats["compared"] += 1
            if byv[v] != byv[base]:
                a, b = byv[base], byv[v]
                i = 0
                while i < min(len(a), len(b)) and a[i] == b[i]:
                    i += 1
                kind = (a[i] if i < len(a) else (b[i] if i < len(b) else "?")).split(" ", 1)[0]
                verdict.violation("C20:cfgdiff:%s:%s-vs-%s:first-difference-%s" % (expr_check.root_class(spec), base, v, kind),
                                  "event logs differ between configurations %s and %s" % (base, v),
                                  "program %d: %s\nscenario: %s\n\n--- %s\n%s\n\n--- %s\n%s\n" % (
                                      pid, gen_expr.cpp(spec), expr_check.scn_line(pid, sid, scen[pid][sid - 1]), base,
                                      "\n".join(a), v, "\n".join(b)))
            if traits[(pid, sid)].get(v) != traits[(pid, sid)].get(base):
                verdict.violation("C20:cfgdiff:%s:%s-vs-%s:static-traits-differ" % (expr_check.root_class(spec), base, v),
                                  "declared sender traits differ: %s vs %s" % (traits[(pid, sid)].get(base), traits[(pid, sid)].get(v)),
                                  "program %d: %s" % (pid, gen_expr.cpp(spec)))
        if len(samples) < 4 and len(byv[base]) > 6:
            samples.append({"program": gen_expr.cpp(spec)[:400], "scenario": expr_check.scn_line(pid, sid, scen[pid][sid - 1]),
                            "canonical_log_identical_in": sorted(byv.keys()), "log": byv[base][:20]})
        stats["distinct"].add((pid, tuple(byv[base])))
    if not stats["compared"]:
        raise core.HarnessFailure("cfgdiff compared nothing")
    cov = {
        "evaluations": stats["evaluations"],
        "distinct_nontrivial": len(stats["distinct"]),
        "rule": "the same generated sender programs (%d) and stream pipelines, and the same scenario list per program (<=%d), "
                "are compiled and run under each configuration in %s ({C++17,20} x {NDEBUG release, debug with assertions and "
                "async stacks} x {continuation visitation 0,1}); the canonical event log (callable invocations with payload "
                "ids, leaf start/stop/completion order, outcome, context tags) and the declared sender traits must be identical "
                "to the %s baseline; debug configurations also check that no AsyncStackRoot is left active at quiescence. "
                "Additionally %d task<> plan sets (harness/src/coro.cpp) x scenarios under the C++20 configurations %s: logs equal, no "
                "configuration dies, async_trace from inside a task reaches the outer receiver where tracing is on. "
                "evaluations = scenario executions over all configurations; distinct_nontrivial = distinct (program, baseline "
                "canonical log)" % (len(progs), budget, variants, base, len(plansets), cvars),
        "samples": samples or ["(none)"],
        "configurations": variants,
        "pairs_compared": stats["compared"],
        "coroutine_configurations": cvars,
        "coroutine_pairs_compared": ccompared,
        "coroutine_async_traces_checked": cstats["traces"],
        "coroutine_async_traces_reaching_root": cstats["traces_reaching_root"],
        "programs_not_compilable_per_configuration": stats.get("dropped", {}),
        "exhaustive": False,
    }
    assume = list(ASSUME) + [
        "only g++ 12 / libstdc++ configurations; task<> plans are compared among the C++20 configurations only (quick: release "
        "without visitation vs debug with visitation)",
        "programs that use fused_stop_source / inplace_stop_token_adapter (let_value_with_stop_source/_token, any_sender_of) run "
        "without stop injection here: under a stop request the recorded use-after-free crashes the unsanitized configurations",
        "async_trace is inspected from inside task<> bodies only (the chain must reach the outer receiver where async stacks and "
        "visitation are both on); async-stack balance is checked at scenario quiescence on the driver thread",
    ]
    return cov, assume, "exploration"
