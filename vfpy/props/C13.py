"""C13: streams deliver the adapted sequence in order and clean up exactly once (generated pipelines, det)."""
from .. import core, expr_check, gen_stream
from ._expr_common import ASSUME

TIERS = {"quick": (18, 3, 3, 150), "thorough": (100, 4, 4, 600)}


def run(tier, seed, verdict):
    n, per, depth, budget = TIERS[tier]
    progs = gen_stream.generate(seed, n, depth)
    run_ = expr_check.ExprRun(seed, n, per, depth, 5, "asan20d", budget, name="stream", programs=progs,
                              scn_fn=gen_stream.scenarios_for, alias={"C05": "C13", "C01": "C13", "C02": "C13"})
    run_.build()
    run_.execute({"C13": verdict}, None, faults=(tier == "thorough"))
    cov = run_.coverage()
    cov["exhaustive"] = False
    cov["build_variants"] = ["asan20d"]
    cov["rule"] = (
        "programs: seeded random stream pipelines (depth<=%d) over probe streams whose next()/cleanup() senders are "
        "manual leaves: transform_stream, filter_stream, via_stream, type_erase, take_until (with a probe trigger stream), "
        "consumed by reduce_stream or for_each. scenarios (<=%d per program): per source a length 0..5 and an end kind "
        "(done / error), inline or deferred element delivery in seeded driver orders (which also decides when a "
        "take_until trigger fires relative to an in-flight next), cleanup outcome done/error, stop injected before "
        "start, between driver steps, inside leaf starts and callables, after the end. evaluations = scenario executions; "
        "distinct_nontrivial = distinct (program, observed driver/stop/leaf-completion order)" % (depth, budget))
    a = list(ASSUME)
    a[2] = ("the stream model (vfpy/expr_model.py, StreamModel classes) encodes list semantics per adaptor; cleanup "
            "exactly-once / after-last-next / before-result rules are additionally checked directly on the log")
    a.append("range_stream, single, never_stream, on_stream, delay, stop_immediately and the step-by-step consumer are not "
             "generated yet (stop_immediately/take_until mt races are covered only through their det orders)")
    return cov, a, "exploration"
