from ._expr_common import run_expr_prop


def run(tier, seed, verdict):
    # single-fault enumeration only for programs that allocate through the receiver's allocator: every block taken from
    # it must go back to it on the exception paths too (counting allocator, rule M3)
    cov, assume = run_expr_prop("C12", tier, seed, verdict, variants=("asan20d",), faults=True,
                                fault_ops=("allocate", "any_sender"),
                                extra_rule="programs containing allocate()/any_sender_of additionally run with each throwable "
                                "point of their first 12 scenarios made to throw (allocator balance rule only).")
    return cov, assume, "exploration"
