from ._expr_common import run_expr_prop
from .. import mt_check, coro_check


def run(tier, seed, verdict):
    variants = ("asan20d", "asan17r") if tier == "thorough" else ("asan20d",)
    cov, assume = run_expr_prop("C02", tier, seed, verdict, variants=variants, faults=True,
                                extra_rule="fault enumeration: for the first 12 scenarios of every program each "
                                "throwable point k=1..N (callable, tracked value copy, leaf connect, allocation) "
                                "is made to throw in its own run.")
    assume.append("single faults only; allocation failure inside libstdc++ internals is not injected")
    # heap-allocated detached states (detach_on_cancel) and coroutine frames are object lifetimes too: the cancel-race
    # harness (LeakSanitizer / ASan at exit) and the task<> plan interpreter (frame + local ledger) are run with this
    # property's verdict; only process deaths (sanitizer reports) and ledger violations are attributed here
    res = mt_check.MtResult()
    n = 3000 if tier == "quick" else 200000
    a = [["seed=%d" % (seed * 100 + 60 + i), "victim=%d" % v, "mode=detach", "iters=%d" % n] for i, v in enumerate((0, 362))]
    mt_check.run_mt("C02", "cancelrace", "asan20d", a, verdict, res, timeout=1800, accept=("C02",))
    cr = coro_check.CoroRun(seed, 12 if tier == "quick" else 100, 40 if tier == "quick" else 100, "asan20d")
    cr.build()
    cr.execute({"C02": verdict})
    c2 = cr.coverage()
    cov["detach_on_cancel_rounds"] = res.stats.get("rounds_total", 0)
    cov["coroutine_scenarios"] = c2["evaluations"]
    cov["coroutine_frames_observed"] = c2["coroutine_frames_observed"]
    cov["evaluations"] += c2["evaluations"] + res.stats.get("rounds_total", 0)
    return cov, assume, "fault_enumeration"
