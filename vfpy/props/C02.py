from ._expr_common import run_expr_prop


def run(tier, seed, verdict):
    variants = ("asan20d", "asan17r") if tier == "thorough" else ("asan20d",)
    cov, assume = run_expr_prop("C02", tier, seed, verdict, variants=variants, faults=True,
                                extra_rule="fault enumeration: for the first 12 scenarios of every program each "
                                "throwable point k=1..N (callable, tracked value copy, leaf connect, allocation) "
                                "is made to throw in its own run.")
    assume.append("single faults only; allocation failure inside libstdc++ internals is not injected")
    return cov, assume, "fault_enumeration"
