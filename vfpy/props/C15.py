"""C15: async_mutex (v1, v2) under stress: mutual exclusion, no lost waiter, no leaked lock, FIFO."""
from .. import core, mt_check


def run(tier, seed, verdict):
    quick = tier == "quick"
    iters = 6000 if quick else 60000
    res = mt_check.MtResult()
    sets = []
    victims_v1 = (0, 281, 282, 271, 273)
    victims_v2 = (0, 291, 292, 293, 294, 295, 296, 297, 298, 333, 331, 332, 344, 343)
    n = 3 if quick else 6
    for variant in ("asan20d", "tsan20d"):
        it = iters if variant.startswith("asan") else iters // 3
        a1 = [x + ["mode=mutex1", "iters=%d" % it, "threads=%d" % t]
              for x, t in zip(mt_check.seeds_args(seed, n, [], victims_v1), (2, 4, 8, 3, 4, 8))]
        a2 = [x + ["mode=mutex2", "iters=%d" % it, "threads=%d" % t]
              for x, t in zip(mt_check.seeds_args(seed + 50, n + 1, [], victims_v2), (4, 2, 8, 4, 3, 8, 4))]
        mt_check.run_mt("C15", "sync", variant, a1 + a2, verdict, res, timeout=600)
    st = res.stats
    need = ["v1_queued_grants", "v2_queued_grants", "v2_cancelled_done", "v2_stop_lost_race_value",
            "v2_stop_while_queued", "v2_stop_before_start", "v2_hop_completions", "v1_trylock_ok", "v2_trylock_fail"]
    missing = [k for k in need if not st.get(k)]
    core.require_observed(verdict, missing, "mutex stress")
    outcomes = {k: v for k, v in st.items() if k.startswith("v1_") or k.startswith("v2_")}
    cov = {
        "evaluations": st.get("v1_lock_ops", 0) + st.get("v2_lock_ops", 0),
        "distinct_nontrivial": sum(1 for v in outcomes.values() if v) + sum(1 for v in res.hooks.values() if v),
        "rule": "each evaluation is one lock operation (async_lock through a counting receiver, or try_lock) issued by "
                "2-8 threads with tiny critical sections on one mutex; v2 waiters are cancelled before start, while "
                "queued, and racing the hand-off, with inline and single_thread_context receiver schedulers. "
                "distinct_nontrivial counts (conservatively) the distinct outcome classes observed "
                "(queued/immediate grant, try_lock success/failure, cancelled-with-done, stop-lost-race, ...) plus the "
                "distinct hook sites hit; individual interleavings are not hashed",
        "samples": ["v1: %d grants (%d after queueing), v2: %d grants, %d cancelled, %d stop-lost-race" % (
            st.get("v1_grants", 0), st.get("v1_queued_grants", 0), st.get("v2_grants", 0),
            st.get("v2_cancelled_done", 0), st.get("v2_stop_lost_race_value", 0))],
        "race_outcomes": outcomes,
        "hook_hits": res.hooks,
        "sanitizer": {"asan_runs": res.san_runs["asan"], "tsan_runs": res.san_runs["tsan"],
                      "tsan_reports": res.tsan_reports},
        "processes": res.runs, "inconclusive": res.inconclusive, "exhaustive": False,
    }
    assume = [
        "lost wake-ups are detected as a started lock operation still pending 30 s after its last possible waker",
        "mutual exclusion: owner word exchanged on entry/exit plus a plain counter written only inside the "
        "critical section (so ThreadSanitizer reports broken exclusion as a data race)",
        "FIFO is judged only between waiters A, B with start(A) returned before start(B) was called, both queued "
        "and neither cancelled",
        "x86-64 host: weak-memory reorderings the Dekker fences guard against cannot be exhibited here",
    ]
    return cov, assume, "exploration"
