"""C07: timers never early, due-time order, prompt single cancellation; time_point arithmetic."""
from .. import core, mt_check


def run(tier, seed, verdict):
    quick = tier == "quick"
    iters = 150 if quick else 1500
    arith = 100000 if quick else 2000000
    res = mt_check.MtResult()
    victims = {"tstc": (0, 421, 422, 423), "epoll": (0, 431, 433, 435, 436), "uring": (0, 441, 443, 445, 446),
               "tuel": (0,)}
    for variant in ("asan20d", "tsan20d"):
        it = iters if variant.startswith("asan") else max(20, iters // 3)
        a = []
        k = 0
        for mode in ("tstc", "epoll", "uring", "tuel"):
            if mode == "tuel" and variant.startswith("tsan"):
                continue  # single-threaded by contract
            for v in victims[mode][: (2 if quick else 5)]:
                k += 1
                a.append(["seed=%d" % (seed * 100 + k), "victim=%d" % v, "mode=" + mode, "iters=%d" % it])
        if variant.startswith("asan"):
            a.append(["seed=%d" % seed, "mode=arith", "iters=%d" % arith])
        mt_check.run_mt("C07", "timer", variant, a, verdict, res, timeout=1200)
    st = res.stats
    need = ["tstc_timers", "epoll_timers", "uring_timers", "tuel_timers", "arith_cases", "tstc_ties_checked",
            "epoll_ties_checked", "uring_ties_checked", "tstc_done", "epoll_done", "uring_done",
            "tuel_stop_before_start", "epoll_far_future_cancelled"]
    missing = [k for k in need if not st.get(k)]
    core.require_observed(verdict, missing, "timer stress")
    cov = {
        "evaluations": st.get("timers_total", 0),
        "distinct_nontrivial": sum(1 for v in st.values() if v) + sum(1 for v in res.hooks.values() if v),
        "rule": "evaluations = timer operations + arithmetic cases. Per round and context (timed_single_thread_context, "
                "io_epoll_context, io_uring_context, thread_unsafe_event_loop): (a) a batch of 2-9 schedule_at operations "
                "with due times {past, now, equal pairs, +0..1.5ms} queued while a gate item holds the context thread, "
                "checked for never-early (scheduler clock read inside the completion), order by (due, submission) and "
                "exactly-once; (b) 4-15 schedule_after(0..2ms) operations with a stop request from another thread at a "
                "random offset around the due time, or before start; (c) a +1h timer cancelled, which must complete with "
                "done (a marker item scheduled after request_stop() returned tells how promptly). Operation states are "
                "malloc'd and freed the moment completion is observed. arithmetic: generated time_point/duration pairs "
                "incl. boundaries vs an __int128 nanosecond model. distinct_nontrivial counts conservatively the non-zero "
                "outcome counters plus hook sites hit",
        "samples": ["%s: %d timers, %d ordered pairs, %d ties, %d done" % (
            m, st.get(m + "_timers", 0), st.get(m + "_ordered_pairs_checked", 0), st.get(m + "_ties_checked", 0),
            st.get(m + "_done", 0)) for m in ("tstc", "epoll", "uring", "tuel")],
        "race_outcomes": dict(st),
        "hook_hits": res.hooks,
        "sanitizer": {"asan_runs": res.san_runs["asan"], "tsan_runs": res.san_runs["tsan"],
                      "tsan_reports": res.tsan_reports},
        "processes": res.runs, "inconclusive": res.inconclusive, "exhaustive": False,
    }
    assume = [
        "'never early' compares readings of the scheduler's own clock; the reference reading for schedule_after is taken "
        "before the sender is created",
        "ordering is judged only between operations that were co-queued behind a gate item",
        "lateness is not judged; cancellation must complete within a generous bound instead of the 1 h due time",
        "time_point arithmetic is exercised with |seconds| < 2^40 (no overflow cases)",
    ]
    return cov, assume, "exploration"
