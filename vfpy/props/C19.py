"""C19: one winner among completion / stop / start-return in the cancel wrappers."""
from .. import core, mt_check


def run(tier, seed, verdict):
    quick = tier == "quick"
    it = 4000 if quick else 40000
    res = mt_check.MtResult()
    for variant in ("asan20d", "tsan20d"):
        n = it if variant.startswith("asan") else it // 4
        a = []
        for i, v in enumerate((0, 341, 342, 343, 344, 345)[: (3 if quick else 6)]):
            a.append(["seed=%d" % (seed * 100 + i), "victim=%d" % v, "mode=cancellable", "iters=%d" % n, "fic=0"])
        # the receiver frees the operation state inside its completion (property text: nothing touches the
        # state after the winner completed)
        if variant.startswith("asan"):
            a.append(["seed=%d" % (seed * 100 + 9), "victim=342", "mode=cancellable", "iters=%d" % n, "fic=1"])
        for i, v in enumerate((0, 361, 362, 363)[: (2 if quick else 4)]):
            a.append(["seed=%d" % (seed * 100 + 20 + i), "victim=%d" % v, "mode=detach", "iters=%d" % n])
        for i, v in enumerate((0, 371, 372)[: (2 if quick else 3)]):
            a.append(["seed=%d" % (seed * 100 + 30 + i), "victim=%d" % v, "mode=sor", "iters=%d" % (n // 2)])
        for i, v in enumerate((0, 351, 352, 353, 354)[: (2 if quick else 5)]):
            a.append(["seed=%d" % (seed * 100 + 40 + i), "victim=%d" % v, "mode=canary", "iters=%d" % n])
        # create_basic_sender (safe / unsafe callbacks, stop handler, stop requested from inside the operation's own handlers)
        a.append(["seed=%d" % (seed * 100 + 50), "victim=0", "mode=basic", "iters=%d" % n, "fic=0"])
        if variant.startswith("asan"):
            a.append(["seed=%d" % (seed * 100 + 51), "victim=0", "mode=basic", "iters=%d" % n, "fic=1"])
            a.append(["seed=%d" % (seed * 100 + 52), "victim=0", "mode=basic", "iters=%d" % n, "fic=2"])
        mt_check.run_mt("C19", "cancelrace", variant, a, verdict, res, timeout=1800)
    st = res.stats
    need = ["cancellable_outcome_completer_thread_won", "cancellable_outcome_done", "cancellable_outcome_stop_hook_ran",
            "cancellable_stops_early_outcome_stop_instead_of_start", "cancellable_stop_concurrent_with_start",
            "detach_outcome_detached_done", "detach_outcome_natural", "stop_on_request_rounds",
            "basic_outcome_value", "basic_outcome_done", "basic_stop_requested_from_own_handler",
            "basic_late_safe_callback_noop", "basic_unsafe_callback_rounds",
            "canary_outcome_guard_alive", "canary_outcome_guard_dead", "canary_outcome_destructor_started_inside_guard"]
    missing = [k for k in need if not st.get(k)]
    core.require_observed(verdict, missing, "cancel-race stress")
    cov = {
        "evaluations": st.get("rounds_total", 0),
        "distinct_nontrivial": sum(1 for v in st.values() if v) + sum(1 for v in res.hooks.values() if v),
        "rule": "each evaluation is one race round: (cancellable) a raw operation registered with an event source in "
                "start(), completed inline / by a completer thread after 0-8us / never, with a stop request before start, "
                "concurrently with start or after a delay, for cancellable<_, false> and <_, true> (skip-start); the "
                "operation state is malloc'd and freed by the starting thread (fic=0) or by the receiver inside its "
                "completion (fic=1). (detach_on_cancel) child completed by another thread vs request_stop. "
                "(stop_on_request) 0-2 external sources + the receiver's source fired from two threads, state freed at "
                "completion. (canary) canary destructor vs watcher.alive()/guard vs watcher destructor. "
                "distinct_nontrivial counts conservatively the non-zero outcome counters plus hook sites hit",
        "samples": ["cancellable: %d completer-won, %d done, %d stop-hook runs, %d stop-instead-of-start" % (
            st.get("cancellable_outcome_completer_thread_won", 0) + st.get("cancellable_stops_early_outcome_completer_thread_won", 0),
            st.get("cancellable_outcome_done", 0) + st.get("cancellable_stops_early_outcome_done", 0),
            st.get("cancellable_outcome_stop_hook_ran", 0) + st.get("cancellable_stops_early_outcome_stop_hook_ran", 0),
            st.get("cancellable_stops_early_outcome_stop_instead_of_start", 0)),
            "canary: %d guards alive, %d dead, %d destructor-started-inside-guard" % (
                st.get("canary_outcome_guard_alive", 0), st.get("canary_outcome_guard_dead", 0),
                st.get("canary_outcome_destructor_started_inside_guard", 0))],
        "race_outcomes": dict(st),
        "hook_hits": res.hooks,
        "sanitizer": {"asan_runs": res.san_runs["asan"], "tsan_runs": res.san_runs["tsan"],
                      "tsan_reports": res.tsan_reports},
        "processes": res.runs, "inconclusive": res.inconclusive, "exhaustive": False,
    }
    assume = [
        "the raw operation unregisters from its event source in stop() before completing (as the library's own users do)",
        "create_raw_sender / create_basic_sender (lambda operation states, safe/unsafe callbacks) are not driven by this harness",
        "a known finding terminates the fic=1 process at its first occurrence; the fic=0 processes cover the remaining rules",
    ]
    return cov, assume, "exploration"
