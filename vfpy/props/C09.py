"""C09: futures (v1 spawn, v2 spawn_future) under stress."""
from .. import core
from ._scope_common import run_scope, coverage


def run(tier, seed, verdict):
    res = run_scope("C09", tier, seed, verdict, ("C09", "C01", "C02"))
    st = res.stats
    need = ["v1_future_value", "v2_future_value", "v1_future_done", "v2_future_done", "v2_future_error",
            "v1_future_dropped", "v2_future_dropped", "v2_future_cancelled_done", "tracked_results_constructed"]
    missing = [k for k in need if not st.get(k)]
    core.require_observed(verdict, missing, "future stress")
    cov = coverage(res, "C09",
                   "each evaluation is one scope lifetime (see C08) in which a third of the admissions are spawn_future / "
                   "scope.spawn: the future is awaited (optionally stop-requested before or shortly after start) or dropped, "
                   "while completer threads finish the spawned leaf with value / error / done and scope-wide stop or close "
                   "race with it; results are tracked values with unique ids and construction/destruction counters. "
                   "distinct_nontrivial counts conservatively the distinct outcome classes observed plus hook sites hit",
                   "v2 futures: %d value, %d error, %d done, %d dropped, %d cancelled-before-result, %d stop-lost-race" % (
                       st.get("v2_future_value", 0), st.get("v2_future_error", 0), st.get("v2_future_done", 0),
                       st.get("v2_future_dropped", 0), st.get("v2_future_cancelled_done", 0),
                       st.get("v2_future_cancel_lost_race", 0)))
    assume = [
        "done is accepted only when the leaf completed with done, never started (scope closed), the future was "
        "cancelled, or (v1) the whole scope was told to stop before the future completed",
        "spawn_detached's terminate-on-error is not driven in-process",
        "heap state freed exactly once is judged by ASan (double free / use after free / leak) and by the tracked "
        "result's construction/destruction balance",
    ]
    return cov, assume, "exploration"
