from .. import core, mt_check


def run_scope(prop, tier, seed, verdict, accept):
    quick = tier == "quick"
    iters = 220 if quick else 2000
    res = mt_check.MtResult()
    # hook sites: 23x v0 scope, 24x v1 attach, 25x v2 scope, 26x spawn_future; the sites of the property at hand come first
    # so that the quick tier (few processes) perturbs them
    if prop == "C09":
        victims = {"v0": (0, 231, 232, 233, 234, 235), "v1": (265, 263, 0, 264, 241, 242, 261, 262, 252, 253, 254, 255),
                   "v2": (265, 263, 0, 264, 261, 262, 252, 253, 254, 255)}
    else:
        victims = {"v0": (0, 231, 232, 233, 234, 235), "v1": (0, 241, 242, 252, 253, 254, 255, 261, 262, 263, 264, 265),
                   "v2": (0, 252, 253, 254, 255, 261, 262, 263, 264, 265)}
    for variant in ("asan20d", "tsan20d"):
        it = iters if variant.startswith("asan") else iters // 2
        a = []
        for i, mode in enumerate(("v0", "v1", "v2")):
            n = 1 if (quick and mode == "v0") else ((3 if prop == "C09" else 2) if quick else 4)
            a += [x + ["mode=" + mode, "iters=%d" % it, "maxW=%d" % (2 if quick else 3)] for x in
                  mt_check.seeds_args(seed + 10 * i, n, [], victims[mode])]
        mt_check.run_mt(prop, "scope", variant, a, verdict, res, timeout=1200, accept=accept)
    return res


def coverage(res, keys_prefix, rule, sample):
    st = res.stats
    outcomes = {k: v for k, v in st.items()}
    return {
        "evaluations": sum(st.get(k + "_histories", 0) for k in ("v0", "v1", "v2")),
        "distinct_nontrivial": sum(1 for v in outcomes.values() if v) + sum(1 for v in res.hooks.values() if v),
        "rule": rule,
        "samples": [sample],
        "race_outcomes": outcomes,
        "hook_hits": res.hooks,
        "sanitizer": {"asan_runs": res.san_runs["asan"], "tsan_runs": res.san_runs["tsan"],
                      "tsan_reports": res.tsan_reports},
        "processes": res.runs, "inconclusive": res.inconclusive, "exhaustive": False,
    }
