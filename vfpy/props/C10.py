"""C10: coroutine tasks map sender results faithfully and always run their cleanup (plan interpreter, det)."""
from .. import core, coro_check

TIERS = {"quick": (60, 70), "thorough": (600, 160)}

ASSUME = [
    "g++ 12 -std=c++20 coroutines only (the pinned test build is C++17 and compiles none of this code)",
    "task bodies are drawn from the step alphabet of harness/src/coro.cpp (await value/void leaf with or without "
    "declared scheduler affinity, nested task awaited directly or through then(), at_coroutine_exit with a synchronous or "
    "an asynchronous cleanup task, tracked locals, throw, plain awaitable (await_transform/as_sender round trip), "
    "stop_if_requested); <=4 plans, <=7 steps each, nesting <=4",
    "leaf completions, scheduler hops and stop requests are serialised by the harness driver on one thread; a stop "
    "request 'from another thread' is produced as a request at every driver position (before connect/start, inside "
    "each leaf start, between any two completions, after the end), not as a hardware race: the refCount_/whoToContinue_ "
    "join of the stop-request thunk is exercised in both of its orders but not under true concurrency",
    "the reference model (vfpy/coro_model.py) encodes docs/api_reference.md and the comments of task.hpp; cleanup "
    "actions always succeed (a failing/cancelling cleanup terminates by design)",
    "the receiver may destroy the operation state and free its stop source inside its completion",
]


def run(tier, seed, verdict):
    n, budget = TIERS[tier]
    run_ = coro_check.CoroRun(seed, n, budget, "asan20d")
    run_.build()
    run_.execute({"C10": verdict})
    cov = run_.coverage()
    cov["exhaustive"] = False
    cov["build_variants"] = ["asan20d"]
    cov["rule"] = (
        "plans: %d seeded random plan sets; scenarios per plan set and receiver token flavour (counting non-inplace "
        "token, inplace_stop_token, unstoppable): all-inline, all-deferred (scheduler hops inline or deferred), every "
        "awaited leaf failing / completing done (inline and deferred), stop injected before connect, before start, inside "
        "each leaf/hop start, between every pair of driver steps and after the end x leaf reaction (done-now, done-later, "
        "ignore), plus seeded mixes (<=%d per flavour); receiver destroys the operation / frees its stop source inside the "
        "completion in half of them. evaluations = scenario executions; distinct_nontrivial = distinct (plan set, observed "
        "order of driver steps, stop deliveries, leaf completions, cleanup actions, frame destructions)" % (n, budget))
    if cov["evaluations"] and cov["inconclusive"] > 0.05 * cov["evaluations"]:
        raise core.HarnessFailure("too many inconclusive scenarios")
    return cov, list(ASSUME), "exploration"
