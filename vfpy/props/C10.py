"""C10: coroutine tasks map sender results faithfully and always run their cleanup (plan interpreter, det)."""
from .. import core, coro_check, mt_check

TIERS = {"quick": (60, 70), "thorough": (400, 120)}

ASSUME = [
    "g++ 12 -std=c++20 coroutines only (the pinned test build is C++17 and compiles none of this code)",
    "task bodies are drawn from the step alphabet of harness/src/coro.cpp (await value/void leaf with or without "
    "declared scheduler affinity, nested task awaited directly or through then(), at_coroutine_exit with a synchronous or "
    "an asynchronous cleanup task, tracked locals, throw, plain awaitable (await_transform/as_sender round trip), "
    "stop_if_requested); <=4 plans, <=7 steps each, nesting <=4",
    "leaf completions, scheduler hops and stop requests are serialised by the harness driver on one thread; a stop "
    "request is produced at every driver position (before connect/start, inside each leaf start, between any two "
    "completions, after the end) in the deterministic part; the multi-threaded part (coromt) races a real stop request from "
    "another thread against the task on natural + perturbed OS schedules (hook sites 451-455 in the stop-request thunk)",
    "the reference model (vfpy/coro_model.py) encodes docs/api_reference.md and the comments of task.hpp; cleanup "
    "actions always succeed (a failing/cancelling cleanup terminates by design)",
    "the receiver may destroy the operation state and free its stop source inside its completion",
]


def run(tier, seed, verdict):
    n, budget = TIERS[tier]
    run_ = coro_check.CoroRun(seed, n, budget, "asan20d")
    run_.build()
    run_.execute({"C10": verdict})
    cov = run_.coverage()
    cov["exhaustive"] = False
    cov["build_variants"] = ["asan20d"]
    cov["rule"] = (
        "plans: %d seeded random plan sets; scenarios per plan set and receiver token flavour (counting non-inplace "
        "token, inplace_stop_token, unstoppable): all-inline, all-deferred (scheduler hops inline or deferred), every "
        "awaited leaf failing / completing done (inline and deferred), stop injected before connect, before start, inside "
        "each leaf/hop start, between every pair of driver steps and after the end x leaf reaction (done-now, done-later, "
        "ignore), plus seeded mixes (<=%d per flavour); receiver destroys the operation / frees its stop source inside the "
        "completion in half of them. evaluations = scenario executions; distinct_nontrivial = distinct (plan set, observed "
        "order of driver steps, stop deliveries, leaf completions, cleanup actions, frame destructions)" % (n, budget))
    # multi-threaded part: the stop request really comes from another thread (stop_when's trigger timer on a second
    # context) while the task tree runs on its own timed context; ASan+UBSan and TSan builds
    res = mt_check.MtResult()
    it = 1500 if tier == "quick" else 15000
    for variant in ("asan20d", "tsan20d"):
        n = it if variant.startswith("asan") else it // 2
        # hook sites in task.hpp: 451 stop callback about to start the deferred stop request, 452 task completion about to
        # drop its reference, 453 deferred stop request about to drop its reference (454/455 count which side finished last)
        victims = (0, 451, 452, 453) if tier == "quick" else (0, 451, 452, 453, 0, 451, 452, 453)
        a = [["seed=%d" % (seed * 100 + i), "iters=%d" % n, "perturb=%d" % (1 if v else i % 2), "victim=%d" % v]
             for i, v in enumerate(victims)]
        mt_check.run_mt("C10", "coromt", variant, a, verdict, res, timeout=1800)
    st = res.stats
    missing = [k for k in ("outcome_value", "outcome_done", "cleanups_run", "frames_total") if not st.get(k)]
    # both orders of the thunk's join must have been seen: 454 = task finished first (waits for the stop delivery),
    # 455 = stop delivery finished last and resumed the continuation
    missing += ["hook %s" % h for h in ("451", "454", "455") if not res.hooks.get(h)]
    core.require_observed(verdict, missing, "coromt")
    cov["mt_rounds"] = st.get("rounds_total", 0)
    cov["mt_outcomes"] = {k: v for k, v in st.items()}
    cov["mt_hook_hits"] = res.hooks
    cov["sanitizer"] = {"asan_runs": res.san_runs["asan"], "tsan_runs": res.san_runs["tsan"],
                        "tsan_reports": res.tsan_reports}
    cov["evaluations"] += st.get("rounds_total", 0)
    cov["rule"] += (" After every fault-free scenario a handle-ownership probe overwrites, moves and drops never-started "
                    "task<> objects and checks through a by-value frame parameter (and LeakSanitizer) that each frame was "
                    "destroyed exactly once.")
    cov["rule"] += (" Multi-threaded part (harness/src/coromt.cpp): each round runs a seeded task tree (depth<=2, timers, "
                    "nested tasks awaited directly and through then(), at_coroutine_exit actions, optionally a final "
                    "one-hour timer that only a delivered stop can end) on timed context A under "
                    "sync_wait(on(A, stop_when(task, schedule_after(B, 0..400us)))), so the stop request arrives from "
                    "context B's thread at a random point; checked per round: one outcome, value impossible when the last "
                    "step never finishes, no frame alive afterwards, cleanups registered == run, reverse order per frame, "
                    "every resumption on A's thread; ASan+UBSan and TSan builds.")
    if cov["evaluations"] and cov["inconclusive"] > 0.05 * cov["evaluations"] and not verdict.has_new():
        # (when processes keep dying on a new violation the scenarios behind them are lost: the violation is the verdict)
        raise core.HarnessFailure("too many inconclusive scenarios")
    return cov, list(ASSUME), "exploration"
