"""C08: async_scope join (v0, v1, v2) under stress."""
from .. import core
from ._scope_common import run_scope, coverage


def run(tier, seed, verdict):
    res = run_scope("C08", tier, seed, verdict, ("C08", "C01", "C02"))
    st = res.stats
    need = ["v1_admitted", "v2_admitted", "v0_admitted", "v1_rejected_after_close", "v2_rejected_after_close",
            "v1_admission_raced_close", "v2_admission_raced_close", "v2_discarded_senders", "v1_joins"]
    missing = [k for k in need if not st.get(k)]
    core.require_observed(verdict, missing, "scope stress")
    cov = coverage(res, "C08",
                   "each evaluation is one scope lifetime: a heap-allocated v0/v1/v2 scope, 1-3 worker threads admitting "
                   "2-6 operations each (spawn, detached spawn, attach/nest + run or discard, spawn_future + await / drop), "
                   "1-2 completer threads finishing the manual leaves in random order, a stopper (request_stop) and 1-2 "
                   "joiners (join / complete / cleanup) starting at random times; the last joiner destroys the scope. "
                   "distinct_nontrivial counts conservatively the distinct outcome classes observed plus hook sites hit",
                   "v1: %d admitted, %d rejected after close, %d admissions overlapping the close, %d joins" % (
                       st.get("v1_admitted", 0), st.get("v1_rejected_after_close", 0),
                       st.get("v1_admission_raced_close", 0), st.get("v1_joins", 0)))
    assume = [
        "a join must not complete before any admitted leaf began to complete (sequence numbers from one relaxed counter, "
        "sound direction only); an admission that began after a close had returned must not start its leaf",
        "the scope is destroyed by the last joiner as soon as no thread calls into it any more (ASan watches the "
        "completion path of the last nested operation)",
        "scopes are not destroyed before being joined (precondition)",
    ]
    return cov, assume, "exploration"
