from ._expr_common import run_expr_prop


def run(tier, seed, verdict):
    cov, assume = run_expr_prop("C05", tier, seed, verdict, variants=("asan20d",))
    return cov, assume, "exploration"
