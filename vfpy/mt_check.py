"""Runner for the hand-written multi-threaded / model-based harness programs."""
import os
import re

from . import core


class MtResult:
    def __init__(self):
        self.stats = {}
        self.hooks = {}
        self.samples = []
        self.runs = 0
        self.san_runs = {"asan": 0, "tsan": 0, "plain": 0}
        self.tsan_reports = 0
        self.inconclusive = 0

    def merge_out(self, out):
        for ln in out.split("\n"):
            p = ln.split(" ", 2)
            if p[0] == "STAT" and len(p) == 3:
                try:
                    self.stats[p[1]] = self.stats.get(p[1], 0) + int(p[2])
                except ValueError:
                    pass
            elif p[0] == "HOOK" and len(p) == 3:
                self.hooks[p[1]] = self.hooks.get(p[1], 0) + int(p[2])
            elif p[0] == "SAMPLE":
                if len(self.samples) < 8:
                    self.samples.append(ln[7:])


def _kind(variant):
    return "tsan" if variant.startswith("tsan") else ("asan" if variant.startswith("asan") else "plain")


def run_mt(prop, harness, variant, arg_sets, verdict, result=None, timeout=900, extra_flags=(), sources=None,
           key_prefix=None, env=None, accept=None):
    """accept: tuple of property ids whose harness-reported violations belong to this check (default: prop only,
    plus the generic protocol/lifetime ids C01/C02 which every harness monitors)"""
    """arg_sets: list of argument lists (one process each, run in parallel).
    Violations found are routed into `verdict`. Returns MtResult."""
    res = result or MtResult()
    exe = core.build_harness(variant, harness, sources or [harness + ".cpp"], extra_flags=extra_flags)
    kp = key_prefix or ("%s:%s" % (prop, harness))

    def one(args):
        r = core.run([exe] + list(args), timeout=timeout, env=env)
        if r.timed_out:
            # re-run once before reporting a hang
            r2 = core.run([exe] + list(args), timeout=timeout, env=env)
            if r2.timed_out:
                return args, r2, "hang"
            return args, r2, "inconclusive-first-run-timed-out"
        return args, r, None

    outs = core.parallel(one, arg_sets)
    for args, r, flag in outs:
        res.runs += 1
        res.san_runs[_kind(variant)] += 1
        cmdline = "%s %s   (variant %s)" % (exe, " ".join(args), variant)
        if flag == "hang":
            verdict.violation("%s:hang:%s" % (kp, _mode_of(args)), "run did not finish within %ds twice" % timeout,
                              "cmd: %s\n\nstdout tail:\n%s\n\nstderr tail:\n%s" % (cmdline, r.out[-3000:], r.err[-12000:]))
            continue
        if flag:
            res.inconclusive += 1
            verdict.note_inconclusive("%s: first run timed out, second finished" % cmdline)
        res.merge_out(r.out)
        for ln in r.out.split("\n"):
            if ln.startswith("VIOL "):
                body = ln[5:]
                key, _, text = body.partition(" :: ")
                owner = key.strip().split(":", 1)[0]
                if owner not in (accept or (prop, "C01", "C02")):
                    continue
                verdict.violation(key.strip(), text.strip(),
                                  "cmd: %s\n\n%s\n\nstdout tail:\n%s" % (cmdline, ln, r.out[-4000:]))
        reps = []
        if _kind(variant) == "tsan":
            reps = core.tsan_reports(r.err, exe)
            res.tsan_reports += len(reps)
            for kind, key, text in reps:
                verdict.violation("%s:tsan:%s:%s" % (kp, kind, key[:160]), "ThreadSanitizer: " + kind,
                                  "cmd: %s\n\n%s" % (cmdline, text[:8000]))
        done = "DONE " in r.out
        if r.rc != 0 or not done:
            ss = core.san_summary(r.err)
            if _kind(variant) == "tsan" and done and r.rc in (66, 87) and reps:
                continue  # exit code only reflects the reports already routed above
            if ss:
                k = "%s:%s:%s" % (kp, ss[0], ">".join(ss[1][:4]))
                what = "process died: %s" % ss[0]
            else:
                m = re.search(r"(Assertion [^\n]*failed[^\n]*|terminate called[^\n]*|std::terminate[^\n]*)", r.err)
                sig = ""
                if r.rc < 0:
                    sig = "signal%d" % (-r.rc)
                k = "%s:died:%s:%s" % (kp, sig or ("rc%d" % r.rc), _clean(m.group(1)) if m else _mode_of(args))
                what = "process died rc=%s %s" % (r.rc, m.group(1) if m else "")
            verdict.violation(k, what, "cmd: %s\nrc=%s\n\nstdout tail:\n%s\n\nstderr tail:\n%s" %
                              (cmdline, r.rc, r.out[-3000:], r.err[-12000:]))
    return res


def _clean(s):
    s = re.sub(r"0x[0-9a-f]+", "ADDR", s)
    s = re.sub(r"\d+", "N", s)
    return re.sub(r"[^A-Za-z0-9_.:-]+", "_", s)[:100]


def _mode_of(args):
    for a in args:
        if a.startswith("mode="):
            return a[5:]
    return "default"


def seeds_args(base_seed, n, extra, victims=(0,)):
    out = []
    for i in range(n):
        v = victims[i % len(victims)]
        out.append(["seed=%d" % (base_seed * 1000 + i), "victim=%d" % v] + list(extra))
    return out
